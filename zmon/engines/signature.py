"""Engine ``signature``: C17 (verifyObject/verifyClass) and C18 (method
descriptions mirror real signatures).  Exhaustive grids decided by
``inspect.signature`` (DESIGN 3.17, 3.18)."""
import abc
import inspect
import itertools

from zope.interface import Attribute, Interface, classImplements, directlyProvides
from zope.interface.common import ABCInterface, ABCInterfaceClass
from zope.interface.exceptions import (
    BrokenImplementation, BrokenMethodImplementation, DoesNotImplement, Invalid,
    MultipleInvalid,
)
from zope.interface.interface import InterfaceClass, fromFunction, fromMethod
from zope.interface.verify import verifyClass, verifyObject

from zmon import util

P = inspect.Parameter


FLAVOURS = ['plain', 'async', 'gen', 'asyncgen', 'closure']
DEFAULT_LITERALS = ['None', "'s'", '(3,)', '()', '(1, 2)', '[]', '0', '{}', 'b"x"', '-1.5']


def mkfunc(name, posonly=0, req=0, dflt=0, varargs=False, kwonly=(), kwargs=False, self_first=False, vname='args', kname='kw',
           lits=None, body_locals=False, flavour='plain'):
    """Build a real function from source text.  *req*/*dflt* count the
    positional-or-keyword parameters; *posonly* positional-only ones come
    first (the last *dflt* positional parameters overall carry defaults);
    *kwonly* is a tuple of booleans (has default)."""
    total = posonly + req
    names = ['self'] if self_first else []
    parts = []
    pos = ['p%d' % i for i in range(posonly)] + ['a%d' % i for i in range(req)] + ['d%d' % i for i in range(dflt)]
    nreq = posonly + req
    out = list(names)
    for i, n in enumerate(pos):
        out.append(n if i < nreq else '%s=%s' % (n, lits[i % len(lits)] if lits else str(100 + i)))
    npo = posonly + (1 if self_first and posonly else 0)
    if posonly:
        # positional-only marker after the positional-only names (self included when present)
        k = (1 if self_first else 0) + posonly
        out.insert(k, '/')
    if varargs:
        out.append('*' + vname)
    elif kwonly:
        out.append('*')
    for i, has_d in enumerate(kwonly):
        out.append('k%d=%s' % (i, lits[(i + 3) % len(lits)] if lits else str(200 + i)) if has_d else 'k%d' % i)
    if kwargs:
        out.append('**' + kname)
    body = '    zlocal = 1\n    zother = [zq for zq in ()]\n    del zother\n' if body_locals else ''
    # flavours of code object: coroutines, generators and asynchronous generators carry further co_flags bits; in a
    # closure the parameters themselves are cell variables and a free variable of the enclosing function is in scope
    kw_def = 'async def' if flavour in ('async', 'asyncgen') else 'def'
    if flavour in ('gen', 'asyncgen'):
        body += '    yield 1\n'
    if flavour == 'closure':
        captured = [n.lstrip('*').split('=')[0] for n in out if n not in ('/', '*')]
        body += '    zcell = lambda: (zfree, %s)\n' % ''.join(c + ', ' for c in captured)
    tail = '    return None\n' if flavour not in ('gen', 'asyncgen') else ''
    src = '%s %s(%s):\n    "doc of %s"\n%s%s' % (kw_def, name, ', '.join(out), name, body, tail)
    head = src.splitlines()[0] + ('' if flavour == 'plain' else '  # inside a closure' if flavour == 'closure' else '  # ' + flavour)
    if flavour == 'closure':
        src = 'def zouter(zfree):\n' + ''.join('    ' + l + '\n' for l in src.splitlines()) + '    return %s\n%s = zouter(7)\n' % (name, name)
    ns = {}
    exec(src, ns)
    return ns[name], head


def expected_info(sig):
    positional, required, optional, varargs, kwargs = [], [], {}, None, None
    for p in sig.parameters.values():
        if p.kind in (P.POSITIONAL_ONLY, P.POSITIONAL_OR_KEYWORD):
            positional.append(p.name)
            if p.default is P.empty:
                required.append(p.name)
            else:
                optional[p.name] = p.default
        elif p.kind is P.VAR_POSITIONAL:
            varargs = p.name
        elif p.kind is P.VAR_KEYWORD:
            kwargs = p.name
    return {'positional': tuple(positional), 'required': tuple(required), 'optional': optional,
            'varargs': varargs, 'kwargs': kwargs}


def expected_string(info):
    sig = []
    for v in info['positional']:
        sig.append(v + ('=' + repr(info['optional'][v]) if v in info['optional'] else ''))
    if info['varargs']:
        sig.append('*' + info['varargs'])
    if info['kwargs']:
        sig.append('**' + info['kwargs'])
    return '(%s)' % ', '.join(sig)


def drop_first(sig):
    ps = list(sig.parameters.values())
    return sig.replace(parameters=ps[1:])


def c18_grid():
    out = []
    for posonly in range(3):
        for req in range(3):
            for dflt in range(3):
                for varargs in (False, True):
                    for nk in range(3):
                        for kwd in itertools.product((False, True), repeat=nk):
                            for kwargs in (False, True):
                                out.append(dict(posonly=posonly, req=req, dflt=dflt, varargs=varargs, kwonly=kwd, kwargs=kwargs))
    return out


def attempt(fn, *a, **kw):
    try:
        return fn(*a, **kw)
    except Exception as e:   # describing a real function must not fail
        return e


def norm_info(d):
    return {'positional': tuple(d['positional']), 'required': tuple(d['required']), 'optional': dict(d['optional']),
            'varargs': d['varargs'], 'kwargs': d['kwargs']}


def check_desc(ctx, m, exp, route, head, mech=None):
    if isinstance(m, BaseException):
        ctx.ev()
        ctx.violation('describing-raised', {'route': route, 'def': head, 'error': repr(m)}, mechanism=mech, abort=False)
        return
    got = norm_info(m.getSignatureInfo())
    ctx.ev()
    ctx.count('descriptions[%s]' % route)
    problems = [k for k in exp if got[k] != exp[k]]
    # defaults are the function's own default objects, not copies of them
    if 'optional' not in problems and any(got['optional'][k] is not exp['optional'][k] for k in exp['optional']):
        problems.append('optional-values-not-identical')
    if not set(got['required']) <= set(got['positional']):
        problems.append('required-not-subset-of-positional')
    if problems:
        mechanism = mech
        if set(problems) <= {'varargs', 'kwargs'} and ('*, ' in head or '*args, k' in head or ', k0' in head):
            mechanism = 'kwonly_shifts_star_names'
        if route == 'abc' and problems == ['required'] or (route == 'abc' and set(problems) <= {'required', 'required-not-subset-of-positional'}):
            mechanism = 'abc_self_left_in_required'
        ctx.violation('signature-info', {'route': route, 'def': head, 'fields': problems,
                                         'got': {k: repr(got[k]) for k in got}, 'expected': {k: repr(exp[k]) for k in exp}},
                      mechanism=mechanism, abort=False)
        return
    s = m.getSignatureString()
    ctx.ev()
    if s != expected_string(exp):
        ctx.violation('signature-string', {'route': route, 'def': head, 'got': s, 'expected': expected_string(exp)}, abort=False)


def run_c18(ctx, rng, job):
    grid = c18_grid()
    nchunks = job['cases'] * job['nshards']
    me = job['shard'] * job['cases'] + ctx.case
    for idx2 in range(2 * me, 2 * len(grid), 2 * nchunks):
      for variant in (0, 1):
          idx = idx2 // 2
          g = grid[idx]
          vname, kname = rng.choice([('args', 'kw'), ('rest', 'opts'), ('a', 'k')])
          # default values of several types (tuples, empty containers, None, strings), not only integers
          lits = rng.sample(DEFAULT_LITERALS, len(DEFAULT_LITERALS)) if (g['dflt'] or any(g['kwonly'])) else None
          if lits:
              ctx.count('grid_points_with_varied_default_values')
              g = dict(g, lits=lits)
          if variant:
              # a real body with local variables (they follow the parameters in co_varnames)
              g = dict(g, body_locals=True)
              ctx.count('grid_points_with_local_variables')
              # ... and of another kind of code object: coroutine, generator, asynchronous generator, closure
              fl = FLAVOURS[(idx + job.get('seed', 0) + rng.randrange(len(FLAVOURS))) % len(FLAVOURS)]
              g['flavour'] = fl
              ctx.count('grid_points_by_kind_of_function[%s]' % fl)
          # (1) plain function through fromFunction and through an interface class body
          f, head = mkfunc('meth', vname=vname, kname=kname, **g)
          f.tagged = ('tag', idx)
          f.other = idx
          exp = expected_info(inspect.signature(f))
          m = fromFunction(f)
          check_desc(ctx, m, exp, 'fromFunction', head)
          ctx.ev()
          if m.queryTaggedValue('tagged') != ('tag', idx) or m.queryTaggedValue('other') != idx or set(m.getTaggedValueTags()) != {'tagged', 'other'}:
              ctx.violation('function-attributes-not-tagged-values', {'def': head}, abort=False)
          if m.getName() != 'meth' or m.getDoc() != 'doc of meth':
              ctx.violation('name-or-doc', {'def': head}, abort=False)
          # descriptions are independent objects: tagging one neither writes to the described function nor shows in
          # another description of it; the mapping one description hands out is not shared with other descriptions
          m_b = fromFunction(f)
          m.setTaggedValue('zz_added_to_description', 1)
          ctx.ev(2)
          if 'zz_added_to_description' in vars(f) or m_b.queryTaggedValue('zz_added_to_description') is not None:
              ctx.violation('tagging-a-description-leaks', {'def': head, 'into': 'function' if 'zz_added_to_description' in vars(f) else 'other description'}, abort=False)
          info_a = m.getSignatureInfo()
          if isinstance(info_a['optional'], dict):
              info_a['optional']['zz_poison'] = 1
          if isinstance(getattr(m, 'optional', None), dict):
              m.optional['zz_poison2'] = 1
          g2, head2 = mkfunc('meth2', vname=vname, kname=kname, **g)
          opt_b = fromFunction(g2).getSignatureInfo()['optional']
          if 'zz_poison' in opt_b or 'zz_poison2' in opt_b or 'zz_poison' in m_b.getSignatureInfo()['optional']:
              ctx.violation('optional-mapping-shared-between-descriptions', {'def': head}, abort=False)
          I = InterfaceClass('IBody', (Interface,), {'meth': f, 'alias': f}, __module__=util.fresh_module())
          check_desc(ctx, I['meth'], exp, 'interface-body', head)
          # function attributes are tagged values of the description whichever way it was made; a description made for
          # an interface under a given name knows both
          ctx.ev(3)
          for route_, d_ in (('interface-body', I['meth']), ('interface-body-alias', I['alias'])):
              if d_.queryTaggedValue('tagged') != ('tag', idx) or d_.queryTaggedValue('other') != idx:
                  ctx.violation('function-attributes-not-tagged-values', {'def': head, 'route': route_}, abort=False)
          if I['alias'].getName() != 'alias' or I['meth'].getName() != 'meth' or I['alias'].interface is not I:
              ctx.violation('name-or-doc', {'def': head, 'route': 'interface-body', 'alias': I['alias'].getName()}, abort=False)
          mk_ = fromFunction(f, I, name='given')
          if mk_.getName() != 'given' or mk_.interface is not I or mk_.queryTaggedValue('tagged') != ('tag', idx):
              ctx.violation('name-or-doc', {'def': head, 'route': 'fromFunction(interface=, name=)'}, abort=False)
          # (2) bound method: leading self removed
          fs, heads = mkfunc('meth', self_first=True, vname=vname, kname=kname, **g)
          C = type('C', (object,), {'meth': fs})
          bound = C().meth
          expb = expected_info(inspect.signature(bound))
          fs.tagged_m = ('mtag', idx)
          check_desc(ctx, fromMethod(bound), expb, 'fromMethod-bound', heads)
          ctx.ev()
          if fromMethod(bound).queryTaggedValue('tagged_m') != ('mtag', idx):
              ctx.violation('function-attributes-not-tagged-values', {'def': heads, 'route': 'fromMethod-bound'}, abort=False)
          check_desc(ctx, fromMethod(fs), expb, 'fromMethod-function', heads)
          check_desc(ctx, fromFunction(fs, imlevel=1), expb, 'fromFunction-imlevel1', heads)
          # (2b) methods that take their instance through *args (no named self)
          if g['varargs'] and g['posonly'] == 0 and g['req'] == 0 and g['dflt'] == 0:
              fi_, headi = mkfunc('meth', vname=vname, kname=kname, **g)
              Ci = type('Ci', (object,), {'meth': fi_})
              boundi = Ci().meth
              expi = expected_info(inspect.signature(boundi))
              check_desc(ctx, attempt(fromMethod, boundi), expi, 'fromMethod-implicit-self', headi, mech='implicit_self_negative_index')
              check_desc(ctx, attempt(fromFunction, fi_, imlevel=1), expi, 'fromFunction-imlevel1-implicit-self', headi, mech='implicit_self_negative_index')
          # (2c) a leading parameter that has a default itself (def meth(self=None, ...)), described as a method
          if g['posonly'] == 0 and g['req'] == 0:
              fd, headd = mkfunc('meth', req=0, dflt=g['dflt'] + 1, varargs=g['varargs'], kwonly=g['kwonly'], kwargs=g['kwargs'],
                                 vname=vname, kname=kname, lits=lits, body_locals=g.get('body_locals', False),
                                 flavour=g.get('flavour', 'plain'))
              expd = expected_info(drop_first(inspect.signature(fd)))
              check_desc(ctx, attempt(fromMethod, fd), expd, 'fromMethod-defaulted-self', headd)
              check_desc(ctx, attempt(fromFunction, fd, imlevel=1), expd, 'fromFunction-imlevel1-defaulted-self', headd)
          # (3) ABC route
          A = abc.ABCMeta('Gen%d' % idx, (object,), {'meth': fs})
          IA = ABCInterfaceClass('IGen%d' % idx, (ABCInterface,), {'abc': A, '__module__': util.fresh_module()})
          check_desc(ctx, IA['meth'], expb, 'abc', heads)
          nontrivial = bool(g['kwonly']) or g['posonly'] > 0 or g['varargs'] or g['kwargs'] or g['dflt'] > 0
          ctx.shape(('c18', g['posonly'], g['req'], g['dflt'], g['varargs'], g['kwonly'], g['kwargs']), nontrivial)
          if lits:
              # the rendering is what str()/repr() of the description and the verification error messages show
              ctx.ev()
              try:
                  ok = expected_string(exp) in str(m) and expected_string(exp) in repr(m)
                  if not ok:
                      ctx.violation('signature-missing-from-str-or-repr', {'def': head, 'str': str(m)[:200], 'expected': expected_string(exp)},
                                    abort=False)
              except Exception as e:
                  ctx.violation('rendering-description-raised', {'def': head, 'error': repr(e)}, abort=False)
          if ctx.case == 0 and len(ctx.samples) < 3 and g['kwonly'] and g['varargs']:
              ctx.sample({'def': head, 'info': {k: repr(v) for k, v in norm_info(m.getSignatureInfo()).items()},
                          'string': m.getSignatureString()})
    if ctx.case == 0:
        # one description rendered by two threads at once (a default value whose repr is slow: both threads are inside
        # getSignatureString() of the same object at the same time); and a default whose repr renders the description again
        import threading

        class SlowRepr:
            def __init__(self):
                self.inside = 0
                self.go = threading.Event()
                self.both = threading.Event()

            def __repr__(self):
                self.inside += 1
                if self.inside >= 2:
                    self.both.set()
                self.go.wait(5)
                return 'SLOW'
        slow = SlowRepr()

        def conc(a, b=slow):
            pass
        mc = fromFunction(conc)
        out = {}

        def render(k):
            try:
                out[k] = mc.getSignatureString()
            except Exception as e:
                out[k] = repr(e)
        ts = [threading.Thread(target=render, args=(k,)) for k in (0, 1)]
        for t in ts:
            t.start()
        slow.both.wait(5)
        slow.go.set()
        for t in ts:
            t.join(10)
        ctx.ev(2)
        ctx.count('descriptions_rendered_by_two_threads_at_once', int(slow.both.is_set()))
        for k in (0, 1):
            if out.get(k) != '(a, b=SLOW)':
                ctx.violation('concurrent-rendering', {'thread': k, 'got': out.get(k), 'expected': '(a, b=SLOW)'}, abort=False)

        class Nosy:
            def __repr__(self):
                return 'N' + inner.getSignatureString()

        def nosy(x, y=Nosy()):
            pass

        def plain(p, q=1):
            pass
        inner = fromFunction(plain)
        ctx.ev()
        if fromFunction(nosy).getSignatureString() != '(x, y=N(p, q=1))':
            ctx.violation('nested-rendering', {'got': fromFunction(nosy).getSignatureString()}, abort=False)
        # lambdas (no name of their own, no documentation)
        for lam in (lambda: 0, lambda a, b=1, *r, k, **o: 0, lambda a, /, b, *, k=2: 0, lambda *a: 0, lambda **k: 0,
                    lambda a=(), b=None: 0, lambda a, /, *r, k=1: 0):
            ml = fromFunction(lam)
            check_desc(ctx, ml, expected_info(inspect.signature(lam)), 'fromFunction-lambda', 'lambda %s' % (inspect.signature(lam),))
            ctx.ev()
            ctx.count('lambdas_described')
            if ml.getName() != '<lambda>' or ml.getDoc():
                ctx.violation('name-or-doc', {'def': 'lambda %s' % (inspect.signature(lam),), 'name': ml.getName(), 'doc': ml.getDoc()}, abort=False)
        # the shipped ABC interfaces: required must be a prefix of positional, without self
        from zope.interface.common import collections as zc
        n = 0
        for name in dir(zc):
            iface = getattr(zc, name)
            if not isinstance(iface, InterfaceClass) or not hasattr(iface, 'getABC'):
                continue
            try:
                abc_cls = iface.getABC()
            except Exception:
                continue
            for mname, desc in iface.namesAndDescriptions():
                fn = vars(abc_cls).get(mname)
                if not inspect.isfunction(fn) or not hasattr(desc, 'getSignatureInfo'):
                    continue
                try:
                    exp = expected_info(drop_first(inspect.signature(fn)))
                except (ValueError, TypeError):
                    continue
                n += 1
                check_desc(ctx, desc, exp, 'abc', '%s.%s%s' % (abc_cls.__name__, mname, inspect.signature(fn)))
        ctx.count('shipped_abc_methods', n)


# -----------------------------------------------------------------------------
# C17

def sig_grid():
    return [dict(req=r, dflt=d, varargs=v, kwargs=k)
            for r in range(4) for d in range(3) for v in (False, True) for k in (False, True)]


def call_shapes(g):
    """Every call shape the interface signature admits."""
    shapes = []
    for n in range(g['req'], g['req'] + g['dflt'] + 1):
        shapes.append((n, {}))
    top = g['req'] + g['dflt']
    if g['varargs']:
        shapes.append((top + 1, {}))
        shapes.append((top + 3, {}))
    if g['kwargs']:
        shapes.append((g['req'], {'zz_unmatched_keyword': 1}))
        shapes.append((top, {'zz_unmatched_keyword': 1}))
    return shapes


def binds(sig, shape):
    n, kw = shape
    try:
        sig.bind(*([0] * n), **kw)
        return True
    except TypeError:
        return False


def check_verify(ctx, fn, iface, cand, tentative, expected, where):
    """expected: list of (exception class, name-or-None)."""
    ctx.ev()
    try:
        res = fn(iface, cand, tentative=tentative) if tentative else fn(iface, cand)
        got = []
        if res is not True:
            ctx.violation('verify-result-not-true', where, abort=False)
    except MultipleInvalid as e:
        got = list(e.exceptions)
        if len(got) < 2:
            ctx.violation('multipleinvalid-with-single-error', where, abort=False)
    except Invalid as e:
        got = [e]

    def key(e):
        if isinstance(e, DoesNotImplement):
            return ('DoesNotImplement', None)
        if isinstance(e, BrokenMethodImplementation):
            return ('BrokenMethodImplementation', getattr(e.method, '__name__', e.method))
        if isinstance(e, BrokenImplementation):
            return ('BrokenImplementation', getattr(e.name, '__name__', e.name))
        return (type(e).__name__, None)
    gk = sorted(map(key, got), key=repr)
    ek = sorted(((c.__name__, n) for c, n in expected), key=repr)
    if gk != ek:
        ctx.violation('verify-verdict', dict(where, got=gk, expected=ek), abort=False)
        return False
    return True


def run_c17(ctx, rng, job):
    grid = sig_grid()
    pairs = [(a, b) for a in range(len(grid)) for b in range(len(grid))]
    nchunks = job['cases'] * job['nshards']
    me = job['shard'] * job['cases'] + ctx.case
    mod = util.fresh_module()
    for idx in range(me, len(pairs), nchunks):
        gi, gm = grid[pairs[idx][0]], grid[pairs[idx][1]]
        fi, hi = mkfunc('m', **gi)
        I = InterfaceClass('IV%d' % idx, (Interface,), {'m': fi}, __module__=mod)
        shapes = call_shapes(gi)
        for form in ('function-on-instance', 'bound-method', 'class'):
            if form == 'function-on-instance':
                impl, hm = mkfunc('m', **gm)
                C = type('Cand', (object,), {})
                classImplements(C, I)
                cand = C()
                cand.m = impl
                sig = inspect.signature(cand.m)
                fn = verifyObject
            else:
                impl, hm = mkfunc('m', self_first=True, **gm)
                C = type('Cand', (object,), {'m': impl})
                classImplements(C, I)
                if form == 'bound-method':
                    cand = C()
                    sig = inspect.signature(cand.m)
                    fn = verifyObject
                else:
                    cand = C
                    sig = drop_first(inspect.signature(impl))
                    fn = verifyClass
            bad = [s for s in shapes if not binds(sig, s)]
            expected = [(BrokenMethodImplementation, 'm')] if bad else []
            ctx.count('signature_pairs')
            if form != 'function-on-instance' and not gm['varargs'] and idx % 3 == 0:
                # the same implementation with additional *defaulted keyword-only* parameters: they bind in none of the
                # admitted call shapes and excuse nothing
                implk, hmk = mkfunc('m', self_first=True, kwonly=(True, True)[:1 + idx % 2], **gm)
                Ck = type('CandK', (object,), {'m': implk})
                classImplements(Ck, I)
                candk = Ck() if form == 'bound-method' else Ck
                sigk = inspect.signature(candk.m) if form == 'bound-method' else drop_first(inspect.signature(implk))
                badk = [s_ for s_ in shapes if not binds(sigk, s_)]
                ctx.count('implementations_with_keyword_only_defaults')
                check_verify(ctx, fn, I, candk, False, [(BrokenMethodImplementation, 'm')] if badk else [],
                             {'form': form + '-kwonly-defaults', 'interface': hi, 'implementation': hmk})
            if form == 'class':
                # The same function object under the other view: the class object itself provides an
                # interface that describes the *unbound* function (instance first).  Verification must not
                # depend on which view of a function was looked at first (history independence).
                gi2 = dict(gi, req=gi['req'] + 1)
                fi2, hi2 = mkfunc('m', **gi2)
                I2 = InterfaceClass('IVU%d' % idx, (Interface,), {'m': fi2}, __module__=mod)
                directlyProvides(C, I2)
                full = inspect.signature(impl)
                bad2 = [s_ for s_ in call_shapes(gi2) if not binds(full, s_)]
                exp2 = [(BrokenMethodImplementation, 'm')] if bad2 else []
                ctx.count('two_view_checks')
                check_verify(ctx, verifyObject, I2, C, False, exp2,
                             {'form': 'class-object-after-verifyClass', 'interface': hi2, 'implementation': hm})
                check_verify(ctx, verifyClass, I, C, False, expected,
                             {'form': 'class-after-class-object', 'interface': hi, 'implementation': hm})
                check_verify(ctx, verifyObject, I, C(), False, expected,
                             {'form': 'bound-after-class-object', 'interface': hi, 'implementation': hm})
            if form != 'function-on-instance' and gm['req'] == 0 and gm['dflt'] == 0 and gm['varargs']:
                # the same implementation written without a named self: def m(*args[, **kw])
                impl2, hm2 = mkfunc('m', req=0, dflt=0, varargs=True, kwargs=gm['kwargs'])
                C2 = type('CandI', (object,), {'m': impl2})
                classImplements(C2, I)
                cand2 = C2() if form == 'bound-method' else C2
                ctx.count('implicit_self_pairs')
                check_verify(ctx, fn, I, cand2, False, expected,
                             {'form': form + '-implicit-self', 'interface': hi, 'implementation': hm2})
            ctx.count('pairs_rejected' if bad else 'pairs_accepted')
            check_verify(ctx, fn, I, cand, False, expected,
                         {'form': form, 'interface': hi, 'implementation': hm, 'unbindable_shapes': [list(map(str, s)) for s in bad[:3]]})
            ctx.shape(('c17', form, tuple(sorted(gi.items())), tuple(sorted(gm.items()))), nontrivial=True)
    # multi-error / attribute / declaration cases
    for _ in range(80 if job['tier'] == 'quick' else 1500):
        multi_case(ctx, rng, mod)
    if ctx.case == 0:
        special_cases(ctx, mod)
        ctx.sample({'interface': 'def m(a0, d0=100, *args)', 'note': 'see counters for the grid'})


def multi_case(ctx, rng, mod):
    mod = util.fresh_module()      # (interfaces are re-based below: their (name, module) keys must be unique, DESIGN 2.5)
    grid = sig_grid()
    nmeth = rng.randint(1, 4)
    nattr = rng.randint(0, 3)
    attrs, meth_g = {}, {}
    for i in range(nmeth):
        g = rng.choice(grid)
        meth_g['m%d' % i] = g
        attrs['m%d' % i] = mkfunc('m%d' % i, **g)[0]
    for i in range(nattr):
        attrs['x%d' % i] = Attribute('attr %d' % i)
    plain = [n for n in attrs if n.startswith('x')]
    if plain and rng.random() < 0.4:
        # names under which a description is filed need not be the description's own name: the same Attribute under
        # a second key, and a one-word Attribute (whose text becomes its __name__)
        attrs['alias'] = attrs[plain[0]]
        attrs['oneword'] = Attribute('Oneword')
        plain += ['alias', 'oneword']
        ctx.count('multi_keys_differing_from_description_names')
    base_attrs = {}
    bm_g = dict(req=1, dflt=0, varargs=False, kwargs=False)
    if rng.random() < 0.6:      # names from a base interface count too
        base_attrs['bm'] = mkfunc('bm', req=1)[0]
        base_attrs['bx'] = Attribute('base attr')
    bases = (Interface,)
    if base_attrs:
        # the defining interface sits 1-3 levels up, possibly at the top of a diamond
        top = InterfaceClass('IVB', (Interface,), base_attrs, __module__=mod)
        depth = rng.choice([1, 1, 2, 3])
        chain = top
        for lvl in range(depth - 1):
            chain = InterfaceClass('IVB%d' % lvl, (chain,), {}, __module__=mod)
        bases = (chain,)
        if rng.random() < 0.3:
            other = InterfaceClass('IVBo', (top,), {}, __module__=mod)
            bases = (chain, other) if chain is not top else (other,)
        ctx.count('multi_base_depth[%d]' % depth)
        if rng.random() < 0.35:
            # the verified interface re-declares the inherited method with another signature: candidates are
            # checked against this (nearest) declaration only, and once
            bm_g = rng.choice(grid)
            attrs['bm'] = mkfunc('bm', **bm_g)[0]
            ctx.count('multi_overridden_method')
    I = InterfaceClass('IVM', bases, attrs, __module__=mod)
    declared = rng.random() < 0.7
    tentative = rng.random() < 0.3
    as_class = rng.random() < 0.4
    ns = {}
    expected = []
    for name, g in list(meth_g.items()) + ([('bm', bm_g)] if base_attrs else []):
        r = rng.random()
        if r < 0.3:
            expected.append((BrokenImplementation, name))        # missing method
            continue
        gm = g if r < 0.7 else rng.choice(grid)
        impl = mkfunc(name, self_first=True, **gm)[0]
        ns[name] = impl
        sig = drop_first(inspect.signature(impl))
        if any(not binds(sig, s) for s in call_shapes(g)):
            expected.append((BrokenMethodImplementation, name))
    inst_attrs = {}
    for name in plain + (['bx'] if base_attrs else []):
        if rng.random() < 0.35:
            if not as_class:
                # (the failure is reported under the description's own name, which is not always the key)
                expected.append((BrokenImplementation, getattr(attrs.get(name), '__name__', name)))    # classes are exempt for plain attributes
        else:
            if as_class or rng.random() < 0.5:
                ns[name] = 1
            else:
                inst_attrs[name] = 1
    C = type('CandM', (object,), ns)
    if declared:
        classImplements(C, I)
    if not declared and not tentative:
        expected.append((DoesNotImplement, None))
    if as_class:
        cand, fn = C, verifyClass
    else:
        cand, fn = C(), verifyObject
        for k, v in inst_attrs.items():
            setattr(cand, k, v)
    ctx.count('multi_error_cases')
    if len(expected) >= 2:
        ctx.count('cases_with_2plus_errors')
    check_verify(ctx, fn, I, cand, tentative, expected,
                 {'form': 'multi', 'class': as_class, 'declared': declared, 'tentative': tentative,
                  'methods': {k: str(v) for k, v in meth_g.items()}})
    if base_attrs and rng.random() < 0.5:
        # the hierarchy above the verified interface changes (an ancestor gets another base that asks for one more
        # method); verification of the same candidate afterwards follows the new hierarchy
        extra = InterfaceClass('IVX', (Interface,), {'zz_new': mkfunc('zz_new', req=1)[0]}, __module__=mod)
        top.__bases__ = (extra,)
        ctx.count('multi_reverified_after_ancestor_rebase')
        check_verify(ctx, fn, I, cand, tentative, expected + [(BrokenImplementation, 'zz_new')],
                     {'form': 'multi-after-ancestor-rebase', 'class': as_class, 'declared': declared, 'tentative': tentative})
        top.__bases__ = (Interface,)
        check_verify(ctx, fn, I, cand, tentative, expected,
                     {'form': 'multi-after-ancestor-rebase-back', 'class': as_class, 'declared': declared, 'tentative': tentative})
        if rng.random() < 0.5:
            # the defining ancestor is replaced by a re-definition of the same name and module that asks for one
            # more method (equal, not identical: what a reloaded module leaves behind)
            twin = InterfaceClass('IVB', (Interface,), dict(base_attrs, zz_twin=mkfunc('zz_twin', req=1)[0]), __module__=mod)
            for holder in [I] + [x for x in I.__iro__ if x is not I]:
                if any(b is top for b in holder.__bases__):
                    holder.__bases__ = tuple(twin if b is top else b for b in holder.__bases__)
            ctx.count('multi_reverified_after_twin_swap')
            expected = expected + [(BrokenImplementation, 'zz_twin')]
            check_verify(ctx, fn, I, cand, tentative, expected,
                         {'form': 'multi-after-equal-twin-swap', 'class': as_class, 'declared': declared, 'tentative': tentative})
    if rng.random() < 0.3:
        # the verified interface itself gets one more base while one of its dependents refuses the news (raises from
        # changed()): the assignment fails, but the interface has its new bases and verification goes by them
        class Grumpy:
            armed = True

            def changed(self, originally_changed):
                if self.armed:
                    self.armed = False
                    raise RuntimeError('dependent refuses')
        g = Grumpy()
        I.subscribe(g)
        extra2 = InterfaceClass('IVY', (Interface,), {'zz_late': mkfunc('zz_late', req=1)[0]}, __module__=mod)
        old_bases = I.__bases__
        try:
            I.__bases__ = old_bases + (extra2,)
        except RuntimeError:
            ctx.count('multi_rebase_interrupted_by_a_raising_dependent')
        I.unsubscribe(g)
        if extra2 in I.__bases__:
            cur = [(c, n) for c, n in expected]
            check_verify(ctx, fn, I, cand, tentative, cur + [(BrokenImplementation, 'zz_late')],
                         {'form': 'multi-after-interrupted-rebase', 'class': as_class, 'declared': declared, 'tentative': tentative})
    if base_attrs and rng.random() < 0.3 and all(b is top or top in b.__iro__ for b in I.__bases__ if b is not Interface) \
            and not any(getattr(b, '__name__', '') == 'IVY' for b in I.__bases__):
        # the defining ancestor is defined anew *in place* (its __init__ runs again with one more method, as an
        # application reloading its configuration does): what it asks for now is what verification goes by
        try:
            cur_top = [x for x in I.__iro__ if x.__name__ == 'IVB'][0]
            new_attrs = dict(base_attrs, zz_again=mkfunc('zz_again', req=1)[0])
            relaxed = 'bm' not in attrs and rng.random() < 0.7
            if relaxed:
                new_attrs['bm'] = Attribute('any attribute will do now')     # no signature to meet any more
            cur_top.__init__('IVB', (Interface,), new_attrs, __module__=mod)
            ok = True
        except Exception:
            ok = False
        if ok:
            ctx.count('multi_reverified_after_reinitialised_ancestor')
            exp2 = [e for e in expected if e[1] != 'zz_twin' and not (relaxed and e == (BrokenMethodImplementation, 'bm'))]
            if relaxed and as_class:
                exp2 = [e for e in exp2 if e != (BrokenImplementation, 'bm')]     # classes are exempt for plain attributes
            if len(exp2) != len([e for e in expected if e[1] != 'zz_twin']):
                ctx.count('multi_verdict_changed_by_in_place_redefinition')
            check_verify(ctx, fn, I, cand, tentative, exp2 + [(BrokenImplementation, 'zz_again')],
                         {'form': 'multi-after-ancestor-defined-anew-in-place', 'class': as_class, 'declared': declared,
                          'tentative': tentative})
    ctx.shape(('c17multi', as_class, declared, tentative, tuple(sorted(c.__name__ for c, _ in expected))), nontrivial=len(expected) >= 2)


def special_cases(ctx, mod):
    I = InterfaceClass('IVS', (Interface,), {'m': mkfunc('m', req=1)[0]}, __module__=mod)

    class Callable:
        def __call__(self, a0):
            return None
    for label, value, ok in (('builtin', len, True), ('method-descriptor', dict.pop, True), ('callable-object', Callable(), True),
                             ('non-callable', 5, False), ('none', None, False)):
        C = type('CandS', (object,), {})
        classImplements(C, I)
        cand = C()
        cand.m = value
        ctx.count('special_cases')
        check_verify(ctx, verifyObject, I, cand, False, [] if ok else [(BrokenMethodImplementation, 'm')], {'form': 'special', 'kind': label})
    # attributes that come out of descriptors and attribute hooks
    good = mkfunc('m', req=1)[0]

    def mk(ns):
        K = type('CandP', (object,), ns)
        classImplements(K, I)
        return K
    cases = [
        # (label, class namespace, verifyObject expectation, verifyClass expectation)
        ('property-returning-a-function', {'m': property(lambda self: good)}, [], []),
        ('property-returning-a-non-callable', {'m': property(lambda self: 5)}, [(BrokenMethodImplementation, 'm')], []),
        ('property-raising-AttributeError', {'m': property(lambda self: (_ for _ in ()).throw(AttributeError('m')))},
         [(BrokenImplementation, 'm')], []),
        ('name-from-__getattr__', {'__getattr__': lambda self, n: good if n == 'm' else (_ for _ in ()).throw(AttributeError(n))},
         [], [(BrokenImplementation, 'm')]),
        ('unset-slot', {'__slots__': ('m',)}, [(BrokenImplementation, 'm')], None),
        ('classmethod', {'m': classmethod(lambda cls, a0: None)}, [], []),
        ('classmethod-too-many-required', {'m': classmethod(lambda cls, a0, a1: None)}, [(BrokenMethodImplementation, 'm')],
         [(BrokenMethodImplementation, 'm')]),
        ('partial', {'m': __import__('functools').partial(lambda a0: None)}, [], []),
        ('bound-builtin', {'m': [].append}, [], []),
    ]
    for label, ns, exp_o, exp_c in cases:
        K = mk(ns)
        ctx.count('special_cases')
        check_verify(ctx, verifyObject, I, K(), False, exp_o, {'form': 'special', 'kind': label, 'how': 'object'})
        if exp_c is not None:
            check_verify(ctx, verifyClass, I, K, False, exp_c, {'form': 'special', 'kind': label, 'how': 'class'})
    # directly provided counts as declared
    C = type('CandD', (object,), {'m': mkfunc('m', self_first=True, req=1)[0]})
    cand = C()
    check_verify(ctx, verifyObject, I, cand, False, [(DoesNotImplement, None)], {'form': 'special', 'kind': 'undeclared'})
    directlyProvides(cand, I)
    check_verify(ctx, verifyObject, I, cand, False, [], {'form': 'special', 'kind': 'directly-provided'})


def run_case(ctx, rng, job):
    (run_c17 if job['prop'] == 'C17' else run_c18)(ctx, rng, job)
