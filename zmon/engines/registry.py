"""Engine ``registry``: C04 (lookup specificity), C05 (cache transparency),
C06 (base chains), C07 (subscriptions), C08 (entry point agreement),
C09 (bookkeeping).  DESIGN 3.4 - 3.9."""
import gc
import os

from zope.interface import (
    Interface, alsoProvides, classImplements, classImplementsOnly,
    directlyProvides, implementedBy, noLongerProvides, providedBy,
)
from zope.interface.adapter import AdapterRegistry, VerifyingAdapterRegistry
from zope.interface.interface import InterfaceClass

from zmon import util
from zmon.util import nm

NAMES = ['', '', 'a', 'b', '\xfc', '\x00a']       # (a name may start with NUL: it is still a name, not "unnamed")
FLAVOURS = {'adapter': AdapterRegistry, 'verifying': VerifyingAdapterRegistry}


class Falsy:
    def __bool__(self):
        return False

    def __len__(self):
        return 0

    def __repr__(self):
        return 'Falsy()'


FALSY = [0, '', (), False, Falsy(), 0.0, []]


def same_result(got, exp):
    return got is exp or (type(got) is type(exp) and got == exp)


class Val:
    """Registered value: unique token, callable (factory / subscriber), with an
    equality class ``k`` so that equal-but-distinct values exist."""

    def __init__(self, k, serial, ret=True):
        self.k, self.serial, self.ret = k, serial, ret
        self.calls = []

    def __eq__(self, other):
        return isinstance(other, Val) and self.k == other.k

    def __ne__(self, other):
        return not self.__eq__(other)

    def __hash__(self):
        return hash(self.k)

    def __call__(self, *obs):
        self.calls.append(obs)
        return self.result(obs)

    def result(self, obs):
        """What calling this factory / subscriber returns: None (``ret`` false), a falsy object that is not None
        (every fifth value: only None means "no adapter"), or a tuple naming the value and its arguments."""
        if not self.ret:
            return None
        if self.serial % 5 == 0:
            return FALSY[(self.serial // 5) % len(FALSY)]
        return ('made', self.serial) + tuple(id(o) for o in obs)

    def __repr__(self):
        return 'V%d/%d%s' % (self.serial, self.k, '' if self.ret else 'n')


class SuperSubclass(super):
    pass


class FalsyVal(Val):
    """A registered value that is false in a boolean context (an empty container adapter, say): only None means
    "nothing registered"."""

    def __bool__(self):
        return False

    def __len__(self):
        return 0

    def __repr__(self):
        return 'F' + Val.__repr__(self)


class RW:
    """Registry world + reference model."""

    def __init__(self, ctx, rng, tier, flavour=None, maxregs=4, with_objs=True, chainy=False):
        self.ctx, self.rng = ctx, rng
        big = tier == 'thorough'
        self.R = util.gen_iface_dag(rng, rng.randint(2, 8 if big else 6), prefix='R', maxb=2)
        self.P = util.gen_iface_dag(rng, rng.randint(1, 5 if big else 4), prefix='P', maxb=2)
        self.classes = []
        for i in range(rng.randint(1, 3)):
            bases = tuple(rng.sample(self.classes, min(len(self.classes), rng.choice([0, 1, 1, 2]))))
            try:
                c = type('K%d' % i, bases or (object,), {})
            except TypeError:
                continue
            classImplements(c, *rng.sample(self.R, rng.randint(0, min(2, len(self.R)))))
            self.classes.append(c)
        self.objs = []
        if with_objs:
            for i in range(rng.randint(2, 4)):
                o = rng.choice(self.classes)()
                o.zname = 'o%d' % i
                if rng.random() < 0.4:
                    directlyProvides(o, *rng.sample(self.R, rng.randint(1, min(2, len(self.R)))))
                self.objs.append(o)
        self.flavour = flavour or os.environ.get('ZMON_FLAVOUR') or rng.choice(['adapter', 'verifying'])
        self.Reg = FLAVOURS[self.flavour]
        self.regs, self.pyreg = [], []
        for i in range(rng.randint(3 if chainy else 1, maxregs)):
            idx = rng.sample(range(len(self.regs)), min(len(self.regs), rng.choice([0, 1, 1, 2])))
            if chainy and self.regs and rng.random() < 0.7:
                # deep chains: build on the most recent registry (+ maybe another)
                idx = [len(self.regs) - 1] + [j for j in idx if j != len(self.regs) - 1][:rng.choice([0, 0, 1])]
            try:
                pc = type('PR%d' % i, tuple(self.pyreg[j] for j in idx) or (object,), {})
            except TypeError:
                idx = idx[:1]
                pc = type('PR%d' % i, tuple(self.pyreg[j] for j in idx) or (object,), {})
            self.pyreg.append(pc)
            self.regs.append(self.Reg(tuple(self.regs[j] for j in idx)))
        self.adapters = {i: {} for i in range(len(self.regs))}
        self.subs = {i: [] for i in range(len(self.regs))}
        self.serial = 0
        self.allvals = []
        ctx.op('world', self.flavour, 'R=' + nm([(r.__name__, nm(r.__bases__)) for r in self.R]),
               'P=' + nm([(p.__name__, nm(p.__bases__)) for p in self.P]),
               'regs=' + str([[self.regs.index(b) for b in r.__bases__] for r in self.regs]))

    # -- helpers -------------------------------------------------------------
    def keyspecs(self):
        return self.R + [implementedBy(c) for c in self.classes] + [None]

    def lookspecs(self):
        return self.R + [implementedBy(c) for c in self.classes] + [providedBy(o) for o in self.objs]

    def newval(self, ret=None):
        self.serial += 1
        if ret is None:
            ret = self.rng.random() < 0.8
        v = (FalsyVal if self.rng.random() < 0.1 else Val)(self.rng.randint(0, 3), self.serial, ret)
        self.allvals.append(v)
        return v

    def chain(self, ri):
        """C3 order of the registry chain, from the *current* __bases__.  Where the base lists admit no C3 order (only
        generated on purpose, C06) the order a freshly built registry graph of the same shape uses is the reference."""
        order = util.c3(self.regs[ri], lambda r: r.__bases__)
        if order is None:
            if not getattr(self, 'allow_inconsistent', False):
                return None
            twins = []
            for r in self.regs:
                twins.append(self.Reg(tuple(twins[self.index_of(b)] for b in r.__bases__)))
            t = twins[ri]
            if self.flavour == 'verifying':
                t.lookup((), Interface, '')
            return [next(i for i, x in enumerate(twins) if x is y) for y in t.ro]
        return [self.index_of(r) for r in order]

    def index_of(self, reg):
        for i, r in enumerate(self.regs):
            if r is reg:
                return i
        raise KeyError

    @staticmethod
    def norm(req):
        return tuple(Interface if r is None else r for r in req)

    @staticmethod
    def positions(kreq, lreq):
        pos = []
        for kr, r in zip(kreq, lreq):
            for n, s in enumerate(r.__sro__):
                if s is kr:
                    pos.append(n)
                    break
            else:
                return None
        return tuple(pos)

    # -- model ---------------------------------------------------------------
    def m_candidates(self, reg_i, lreq, lprov, name):
        out = []
        for (kreq, kprov, kname), v in self.adapters[reg_i].items():
            if kname != name or len(kreq) != len(lreq):
                continue
            if not (kprov is lprov or kprov.extends(lprov)):
                continue
            pos = self.positions(kreq, lreq)
            if pos is None:
                continue
            out.append((pos, kprov, v, kreq))
        return out

    def m_lookup(self, ri, lreq, lprov, name, chain=None):
        """Returns (acceptable values, info).  [None] when nothing applies."""
        chain = self.chain(ri) if chain is None else chain
        for depth, reg_i in enumerate(chain):
            cands = self.m_candidates(reg_i, lreq, lprov, name)
            if cands:
                best = min(c[0] for c in cands)
                tied = [c for c in cands if c[0] == best]
                minimal = [c for c in tied
                           if not any(o is not c and c[1] is not o[1] and c[1].extends(o[1]) for o in tied)]
                return [c[2] for c in minimal], {'n_cands': len(cands), 'depth': depth, 'tied': len(tied),
                                                 'later_pos_only': sum(1 for c in cands if c[0][:1] == best[:1] and c[0] != best)}
        return [None], {'n_cands': 0, 'depth': None, 'tied': 0, 'later_pos_only': 0}

    def m_names(self, ri, lreq, lprov, chain=None):
        chain = self.chain(ri) if chain is None else chain
        names = set()
        for reg_i in chain:
            for (kreq, kprov, kname), v in self.adapters[reg_i].items():
                if len(kreq) == len(lreq) and (kprov is lprov or kprov.extends(lprov)) and self.positions(kreq, lreq) is not None:
                    names.add(kname)
        return names

    def m_subscriptions(self, ri, lreq, lprov, chain=None):
        """Expected entries: (chain index, positions, kreq, kprov, n, value)."""
        chain = self.chain(ri) if chain is None else chain
        exp = []
        for ci, reg_i in enumerate(chain):
            for n, (kreq, kprov, v) in enumerate(self.subs[reg_i]):
                if len(kreq) != len(lreq):
                    continue
                if lprov is None:
                    if kprov is not None:
                        continue
                else:
                    if kprov is None or not (kprov is lprov or kprov.extends(lprov)):
                        continue
                pos = self.positions(kreq, lreq)
                if pos is None:
                    continue
                exp.append((ci, pos, kreq, kprov, n, v))
        return exp

    def check_subscriptions(self, got, exp, where):
        """Multiset equality by identity + the pairwise order rules."""
        ctx = self.ctx
        ctx.ev()
        if sorted(map(id, got)) != sorted(id(e[-1]) for e in exp):
            ctx.violation('subscriptions-multiset', dict(where, got=repr(list(got)), expected=repr([e[-1] for e in exp])))
        byid = {}
        for e in exp:
            byid.setdefault(id(e[-1]), []).append(e)
        # the identical object under two different keys (or in two registries): its occurrences in a result cannot be told
        # apart, so they take part in the count only, not in the order rules
        ambiguous = {i_ for i_, es in byid.items() if len({(e[0], tuple(map(id, e[2])), id(e[3])) for e in es}) > 1}
        if ambiguous:
            ctx.count('results_with_one_object_under_several_keys')
        seq = []
        for g in got:
            seq.append(byid[id(g)].pop(0))
        for a in range(len(seq)):
            for b in range(a + 1, len(seq)):
                x, y = seq[a], seq[b]
                if id(x[-1]) in ambiguous or id(y[-1]) in ambiguous:
                    continue
                ctx.count('order_pairs')
                if y[0] > x[0]:
                    ctx.violation('subscriptions-registry-order', dict(where, first=repr(x[-1]), second=repr(y[-1])))
                elif y[0] == x[0]:
                    if y[1] != x[1] and all(py >= px for py, px in zip(y[1], x[1])):
                        ctx.violation('subscriptions-specificity-order', dict(where, first=repr(x[-1]), first_pos=x[1],
                                                                           second=repr(y[-1]), second_pos=y[1]))
                    elif y[2] == x[2] and y[3] is x[3] and y[4] < x[4] and all(a_ is b_ for a_, b_ in zip(y[2], x[2])):
                        ctx.violation('subscriptions-fifo-order', dict(where, first=repr(x[-1]), second=repr(y[-1])))
        return seq

    # -- mutations (real + model) ----------------------------------------------
    def order_of(self, x):
        """A small stable number for a specification of this world (order of first use)."""
        t = self.__dict__.setdefault('_order', {})
        return t.setdefault(id(x), len(t))

    def seq(self, req):
        """The required specifications as the caller may hand them over: any iterable, also one that can be walked
        only once (generators, map objects, iterators)."""
        r = self.rng.random()
        if r < 0.8:
            return req
        self.ctx.count('required_given_as_a_one_shot_iterable' if r < 0.93 else 'required_given_as_a_list')
        if r < 0.87:
            return iter(tuple(req))
        if r < 0.93:
            return (x for x in tuple(req))
        return list(req)

    def register(self, ri, req, prov, name, v):
        self.ctx.op('register', ri, nm(req), nm(prov), name, repr(v))
        self.regs[ri].register(self.seq(req), prov, name, v)
        key = (self.norm(req), prov, name)
        if v is None:
            self.adapters[ri].pop(key, None)
        elif self.adapters[ri].get(key) is v:
            pass
        else:
            self.adapters[ri].pop(key, None)
            self.adapters[ri][key] = v

    def unregister(self, ri, req, prov, name, v=None):
        self.ctx.op('unregister', ri, nm(req), nm(prov), name, repr(v))
        self.regs[ri].unregister(self.seq(req), prov, name, v)
        key = (self.norm(req), prov, name)
        cur = self.adapters[ri].get(key)
        if cur is not None and (v is None or cur is v):
            del self.adapters[ri][key]

    def subscribe(self, ri, req, prov, v):
        self.ctx.op('subscribe', ri, nm(req), nm(prov), repr(v))
        self.regs[ri].subscribe(self.seq(req), prov, v)
        self.subs[ri].append((self.norm(req), prov, v))

    def unsubscribe(self, ri, req, prov, v=None):
        self.ctx.op('unsubscribe', ri, nm(req), nm(prov), repr(v))
        self.regs[ri].unsubscribe(self.seq(req), prov, v)
        k = self.norm(req)

        def same(e):
            return len(e[0]) == len(k) and all(a is b for a, b in zip(e[0], k)) and e[1] is prov
        if v is None:
            self.subs[ri] = [e for e in self.subs[ri] if not same(e)]
        else:
            self.subs[ri] = [e for e in self.subs[ri] if not (same(e) and e[2] == v)]

    def rand_key(self, ar=None):
        rng = self.rng
        if ar is None:
            ar = rng.choice([0, 1, 1, 1, 2, 2, 3])
        req = tuple(rng.choice(self.keyspecs()) for _ in range(ar))
        return req, rng.choice(self.P), rng.choice(NAMES)

    def rand_query(self, ar=None, provs=None):
        rng = self.rng
        if ar is None:
            ar = rng.choice([0, 1, 1, 1, 2, 2, 3])
        lreq = tuple(rng.choice(self.lookspecs()) for _ in range(ar))
        return lreq, rng.choice(provs or (self.P + [Interface])), rng.choice(NAMES)


# =============================================================================
# C04

def run_c04(ctx, rng, job):
    w = RW(ctx, rng, job['tier'], with_objs=True)
    big = job['tier'] == 'thorough'
    shapes = set()
    asked = []
    for j in range(rng.randint(4, 40 if big else 25)):
        ri = rng.randrange(len(w.regs))
        req, prov, name = w.rand_key()
        if rng.random() < 0.35 and w.adapters[ri]:
            # bias to ties: reuse an existing key's arity and name, vary one slot
            (kreq, kprov, kname) = rng.choice(list(w.adapters[ri]))
            req = tuple(rng.choice(w.keyspecs()) if rng.random() < 0.5 else r for r in kreq)
            name = kname
            if rng.random() < 0.5:
                prov = kprov
            elif rng.random() < 0.6:
                # same required key and name under another provided interface: the order in which related
                # and unrelated provided interfaces were first registered must not matter
                req = kreq
        if rng.random() < 0.12 and w.adapters[ri]:
            k = rng.choice(list(w.adapters[ri]))
            w.unregister(ri, *k)
        else:
            w.register(ri, req, prov, name, w.newval())
        for q in range(rng.randint(1, 5)):
            li = rng.randrange(len(w.regs))
            lreq, lprov, lname = w.rand_query()
            if rng.random() < 0.4 and w.adapters[ri]:
                (kreq, kprov, kname) = rng.choice(list(w.adapters[ri]))
                lname = kname
                lreq = tuple(rng.choice(w.lookspecs()) for _ in kreq)
                lprov = rng.choice([kprov] + [p for p in w.P if kprov.extends(p)])
            exp, info = w.m_lookup(li, lreq, lprov, lname)
            dflt = object()
            got = w.regs[li].lookup(lreq, lprov, lname, dflt)
            ctx.ev()
            ctx.count('lookups')
            if exp == [None]:
                ok = got is dflt
            else:
                ok = any(got is e for e in exp)
                ctx.count('hits')
            if info['n_cands'] >= 2:
                ctx.count('lookups_2plus_candidates')
            if info['later_pos_only'] >= 1:
                ctx.count('lookups_candidates_differing_after_first_position')
            if len(exp) > 1:
                ctx.count('ambiguous')
            if not ok:
                ctx.violation('lookup-wrong', {'registry': li, 'required': nm(lreq), 'provided': nm(lprov), 'name': lname,
                                               'got': repr(got) if got is not dflt else 'default', 'expected_one_of': repr(exp),
                                               'sros': [nm(r.__sro__) for r in lreq], 'info': info})
            shapes.add((len(lreq), min(info['n_cands'], 4), info['depth']))
            if len(lreq) == 1:
                g1 = w.regs[li].lookup1(lreq[0], lprov, lname, dflt)
                ctx.ev()
                if g1 is not got:
                    ctx.violation('lookup1-differs', {'registry': li, 'required': nm(lreq), 'provided': nm(lprov), 'name': lname})
            asked.append((li, lreq, lprov, lname, exp))
            del asked[:-12]
        if rng.random() < 0.06 and asked:
            # a registry rebuilds itself in place (rebuild()), then changes as often as it takes to bring its change
            # counter back to where it was; nothing is looked up in between.  The remembered keys are then asked of
            # every registry again (a verifying registry below must not mistake the counter for "nothing happened").
            rb = rng.randrange(len(w.regs))
            g0 = getattr(w.regs[rb], '_generation', None)
            ctx.op('rebuild', rb)
            w.regs[rb].rebuild()
            g1 = getattr(w.regs[rb], '_generation', None)
            ctx.count('rebuilds_between_lookups')
            n_more = (g0 - g1) if isinstance(g0, int) and isinstance(g1, int) and 0 < g0 - g1 <= 6 else rng.randint(1, 2)
            for _m in range(n_more):
                (kreq, kprov, kname) = rng.choice(list(w.adapters[rb])) if w.adapters[rb] and rng.random() < 0.5 else w.rand_key()
                w.register(rb, kreq, kprov, kname, w.newval())
            for (li, lreq, lprov, lname, before) in asked:
                exp, info = w.m_lookup(li, lreq, lprov, lname)
                dflt = object()
                got = w.regs[li].lookup(lreq, lprov, lname, dflt)
                ctx.ev()
                ok = (got is dflt) if exp == [None] else any(got is e for e in exp)
                if not ok:
                    ctx.violation('lookup-wrong-after-rebuild', {'registry': li, 'rebuilt': rb, 'required': nm(lreq), 'provided': nm(lprov),
                                                                 'name': lname, 'got': repr(got) if got is not dflt else 'default',
                                                                 'expected_one_of': repr(exp)})
        if rng.random() < 0.05 and asked:
            # a registry gets a new lookup object while it is populated (what persistent registries do when their state
            # is loaded: ``_createLookup()``, bases assigned again, ``changed``): the provided interfaces it knows of have to
            # be worked out from what is registered, most general first, all over again
            rl = rng.randrange(len(w.regs))
            reg_ = w.regs[rl]
            if hasattr(reg_, '_createLookup'):
                ctx.op('reload-lookup-object', rl)
                bases_ = reg_.__bases__
                reg_._createLookup()
                reg_.__bases__ = bases_
                reg_._v_lookup.changed(reg_)
                ctx.count('lookup_objects_recreated_on_populated_registries')
                for (li, lreq, lprov, lname, before) in asked:
                    exp, info = w.m_lookup(li, lreq, lprov, lname)
                    dflt = object()
                    got = w.regs[li].lookup(lreq, lprov, lname, dflt)
                    ctx.ev()
                    ok = (got is dflt) if exp == [None] else any(got is e for e in exp)
                    if not ok:
                        ctx.violation('lookup-wrong-after-lookup-object-recreated', {'registry': li, 'recreated': rl, 'required': nm(lreq),
                                                                                    'provided': nm(lprov), 'name': lname,
                                                                                    'got': repr(got) if got is not dflt else 'default',
                                                                                    'expected_one_of': repr(exp)})
        if rng.random() < 0.25 and asked:
            # "all interface/class hierarchies": the hierarchy of the looked-up specifications changes between two
            # lookups of the same key (class declaration, object declaration, re-basing of a required interface);
            # the winner is defined over the *current* resolution orders
            kind = rng.choice(['class', 'object', 'bases'])
            sel = rng.sample(w.R, rng.randint(1, min(2, len(w.R))))
            if kind == 'class' and w.classes:
                c = rng.choice(w.classes)
                ctx.op('classImplements', c.__name__, nm(sel))
                (classImplements if rng.random() < 0.7 else classImplementsOnly)(c, *sel)
            elif kind == 'object' and w.objs:
                o = rng.choice(w.objs)
                ctx.op('directly/alsoProvides', o.zname, nm(sel))
                (alsoProvides if rng.random() < 0.6 else directlyProvides)(o, *sel)
            elif len(w.R) > 1:
                i = rng.randrange(1, len(w.R))
                nb = tuple(rng.sample(w.R[:i], rng.randint(0, min(2, i)))) or (Interface,)
                ctx.op('rebase', w.R[i].__name__, nm(nb))
                w.R[i].__bases__ = nb
            ctx.count('hierarchy_changes')
            for (li, lreq, lprov, lname, before) in asked:
                # (an instance declaration remembered here stays a valid specification after the object got a
                #  new one; its resolution order still follows its class)
                exp, info = w.m_lookup(li, lreq, lprov, lname)
                dflt = object()
                got = w.regs[li].lookup(lreq, lprov, lname, dflt)
                ctx.ev()
                ctx.count('lookups_after_hierarchy_change')
                if exp != before:
                    ctx.count('winner_changed_by_hierarchy_change')
                ok = (got is dflt) if exp == [None] else any(got is e for e in exp)
                if not ok:
                    ctx.violation('lookup-wrong-after-hierarchy-change',
                                  {'registry': li, 'required': nm(lreq), 'provided': nm(lprov), 'name': lname,
                                   'got': repr(got) if got is not dflt else 'default', 'expected_one_of': repr(exp),
                                   'expected_before_change': repr(before), 'sros': [nm(r.__sro__) for r in lreq]})
        if rng.random() < 0.3:
            # registered(): exact key only
            rr = rng.randrange(len(w.regs))
            req, prov, name = w.rand_key()
            if w.adapters[rr] and rng.random() < 0.6:
                req, prov, name = rng.choice(list(w.adapters[rr]))
            ctx.ev()
            if w.regs[rr].registered(req, prov, name) is not w.adapters[rr].get((w.norm(req), prov, name)):
                ctx.violation('registered-wrong', {'registry': rr, 'key': nm(req) + nm(prov) + name})
    for s in shapes:
        ctx.shape(('c04',) + s, nontrivial=s[1] >= 2)


# =============================================================================
# C07

def rebuilt_base(ctx, rng):
    """A verifying registry below a base that is rebuilt: the base's change counter must not come back to a value the
    lower registry has recorded for other contents.  History: changes in the base, lookups below (warm), ``rebuild()`` of
    the base, then - with no lookup in between - as many further changes as bring a counter that restarted at
    ``rebuild()`` back to where it was; every entry point below must show them."""
    from zope.interface.adapter import VerifyingAdapterRegistry as V
    mod = util.fresh_module()
    IR, IP = util.mkiface('IR', module=mod), util.mkiface('IP', module=mod)

    class K:
        pass
    classImplements(K, IR)
    ob = K()
    base = V()
    sub = V((base,))
    vals = [Val(i, i, True) for i in range(12)]
    n0 = rng.randint(1, 4)
    for i in range(n0):                      # n0 changes, net content: one adapter, one subscriber
        base.register([IR], IP, '', vals[i])
    base.subscribe([IR], IP, vals[5])
    g0 = getattr(base, '_generation', None)

    def snapshot(r):
        return (r.lookup([IR], IP, ''), r.lookup1(IR, IP, ''), tuple(r.lookupAll([IR], IP)), tuple(r.subscriptions([IR], IP)),
                tuple(r.names([IR], IP)), r.lookup([IR], IP, 'late'))
    snapshot(sub)                            # warm, generations recorded
    base.rebuild()
    g1 = getattr(base, '_generation', None)
    if not (isinstance(g0, int) and isinstance(g1, int)):
        return
    ctx.count('rebuilt_base_histories')
    # the changes that follow, chosen so that a restarted counter passes g0 again at every step
    steps = [lambda: base.register([IR], IP, '', vals[6]), lambda: base.subscribe([IR], IP, vals[7]),
             lambda: base.register([IR], IP, 'late', vals[8]), lambda: base.unsubscribe([IR], IP, vals[5]),
             lambda: base.register([IR], IP, '', vals[9]), lambda: base.subscribe([IR], IP, vals[10])]
    done = 0
    for k, st in enumerate(steps):
        st()
        done += 1
        if rng.random() < 0.5 and done < len(steps):
            continue                          # several changes pile up before the next question
        fresh = V()
        for a in base.allRegistrations():
            fresh.register(*a)
        for a in base.allSubscriptions():
            fresh.subscribe(*a)
        exp = snapshot(V((fresh,)))
        got = snapshot(sub)
        ctx.ev()
        ctx.count('rebuilt_base_probes')
        if got != exp:
            ctx.violation('stale-below-a-rebuilt-base', {'changes_before_rebuild': n0 + 1, 'changes_after_rebuild': done,
                                                         'got': repr(got)[:300], 'expected': repr(exp)[:300]}, abort=False)
            return


def rebase_with_failing_generation(ctx, rng):
    """A verifying registry is re-based onto a registry whose change counter is computed and cannot be read at that moment
    (the assignment fails after the bases have been stored).  From then on the registry consults its new chain: what is
    registered there later shows, what the old chain holds does not."""
    from zope.interface.adapter import VerifyingAdapterRegistry as V
    mod = util.fresh_module()
    IR, IP = util.mkiface('IR', module=mod), util.mkiface('IP', module=mod)

    class Flaky(V):
        fail = False

        @property
        def _generation(self):
            if Flaky.fail:
                Flaky.fail = False
                raise RuntimeError('state cannot be loaded right now')
            return self.__dict__.get('_g', 0)

        @_generation.setter
        def _generation(self, v):
            self.__dict__['_g'] = v
    old_top, new_top = V(), Flaky()
    mid = V((old_top,))
    low = V((mid,))
    v_old, v_new = Val(1, 1, True), Val(2, 2, True)
    old_top.register([IR], IP, '', v_old)
    if low.lookup([IR], IP, '') is not v_old:
        return
    target = rng.choice([mid, low])
    Flaky.fail = True
    try:
        target.__bases__ = (new_top,)
        raised = False
    except RuntimeError:
        raised = True
    Flaky.fail = False
    ctx.count('rebasings_with_a_failing_generation_read[%s]' % ('raised' if raised else 'passed'))
    if tuple(target.__bases__) != (new_top,):
        return                       # (the assignment did not take place at all: nothing to say)
    new_top.register([IR], IP, '', v_new)
    new_top.subscribe([IR], IP, v_new)
    ctx.ev(2)
    got = (low.lookup([IR], IP, ''), tuple(low.subscriptions([IR], IP)), dict(low.lookupAll([IR], IP)).get(''))
    if got[0] is not v_new or got[1] != (v_new,) or got[2] is not v_new:
        ctx.violation('chain-lookup-wrong', {'after': 're-basing %s onto a registry whose generation could not be read' %
                                             ('the middle' if target is mid else 'the bottom'), 'got': repr(got), 'expected': repr(v_new)}, abort=False)
        return
    # ... and keeps noticing what changes there (these answers are cached by now)
    v_newer = Val(3, 3, True)
    new_top.register([IR], IP, '', v_newer)
    new_top.unsubscribe([IR], IP, v_new)
    ctx.ev(2)
    got = (low.lookup([IR], IP, ''), tuple(low.subscriptions([IR], IP)), dict(low.lookupAll([IR], IP)).get(''))
    if got[0] is not v_newer or got[1] != () or got[2] is not v_newer:
        ctx.violation('chain-lookup-wrong', {'after': 'a later change in the registry the %s was re-based onto while its generation could not be read' %
                                             ('middle' if target is mid else 'bottom'), 'got': repr(got), 'expected': repr(v_newer)}, abort=False)


def run_c07(ctx, rng, job):
    if ctx.case % 4 == 0:
        rebuilt_base(ctx, rng)
    w = RW(ctx, rng, job['tier'], with_objs=True, maxregs=3)
    big = job['tier'] == 'thorough'
    shapes = set()
    provs = w.P + [None]
    asked7 = []
    for j in range(rng.randint(4, 45 if big else 30)):
        ri = rng.randrange(len(w.regs))
        ar = rng.choice([0, 1, 1, 2, 2, 3])
        req = tuple(rng.choice(w.keyspecs()) for _ in range(ar))
        prov = rng.choice(provs)
        r = rng.random()
        if r < 0.65 or not w.subs[ri]:
            if w.subs[ri] and rng.random() < 0.4:
                e = rng.choice(w.subs[ri])       # same key again: duplicates / FIFO
                req, prov = e[0], e[1]
            v = w.newval()
            if w.subs[ri] and rng.random() < 0.15:
                # the identical object twice, under the same key ...
                e = rng.choice(w.subs[ri])
                req, prov, v = e
            elif w.subs[ri] and rng.random() < 0.12:
                # ... or under another key, maybe in another registry (one handler for two events): counted once per
                # subscription, removed per key
                e = rng.choice(w.subs[ri])
                v = e[2]
                if rng.random() < 0.3:
                    ri = rng.randrange(len(w.regs))
                ctx.count('one_object_subscribed_under_several_keys')
            w.subscribe(ri, req, prov, v)
        else:
            e = rng.choice(w.subs[ri])
            # the key as a caller may write it: None where the root interface is meant
            kreq = tuple(None if (x is Interface and rng.random() < 0.5) else x for x in e[0])
            if any(x is None for x in kreq):
                ctx.count('unsubscribe_with_None_required')
            if rng.random() < 0.6:
                w.unsubscribe(ri, kreq, e[1], Val(e[2].k, -1) if rng.random() < 0.5 else e[2])
                ctx.count('unsubscribe_value')
            else:
                w.unsubscribe(ri, kreq, e[1])
                ctx.count('unsubscribe_all')
        if rng.random() < 0.1 and w.classes:
            # what the looked-up specifications extend changes (a class declaration) ...
            c = rng.choice(w.classes)
            sel = rng.sample(w.R, rng.randint(1, min(2, len(w.R))))
            ctx.op('classImplements', c.__name__, nm(sel))
            (classImplements if rng.random() < 0.7 else classImplementsOnly)(c, *sel)
            ctx.count('declaration_changes_between_queries')
            # the keys asked lately, again: their answers follow the new resolution orders
            for (li_, lreq_, lprov_) in asked7:
                exp_ = w.m_subscriptions(li_, lreq_, lprov_)
                got_ = w.regs[li_].subscriptions(lreq_, lprov_)
                ctx.count('subscription_queries_repeated_after_a_declaration_change')
                w.check_subscriptions(got_, exp_, {'registry': li_, 'required': nm(lreq_), 'provided': nm(lprov_),
                                                   'after': 'declaration change on %s' % c.__name__})
        if rng.random() < 0.08 and len(w.regs) > 1:
            # ... or which registries are above one (kept C3-consistent with the mirrored class graph)
            i = rng.randrange(1, len(w.regs))
            idx = rng.sample(range(i), min(i, rng.choice([0, 1, 1, 2])))
            try:
                w.pyreg[i].__bases__ = tuple(w.pyreg[j] for j in idx) or (object,)
            except TypeError:
                idx = None
            if idx is not None:
                ctx.op('registry_bases', i, idx)
                w.regs[i].__bases__ = tuple(w.regs[j] for j in idx)
                ctx.count('registry_rebasings_between_queries')
        if rng.random() < 0.06:
            # rebuild(): the registry re-initialises itself in place from its own listings
            rb = rng.randrange(len(w.regs))
            ctx.op('rebuild', rb)
            w.regs[rb].rebuild()
            ctx.count('rebuilds_between_queries')
        if rng.random() < 0.25:
            # adapters live in the same registries and share the per-interface bookkeeping with the subscribers
            # (reference counts of provided interfaces, extendor lists): register / overwrite / unregister them too
            areg = rng.randrange(len(w.regs))
            if w.adapters[areg] and rng.random() < 0.5:
                k = rng.choice(list(w.adapters[areg]))
                if rng.random() < 0.6:
                    w.unregister(areg, *k)
                else:
                    w.register(areg, k[0], k[1], k[2], w.newval())
            else:
                kreq, kprov, kname = w.rand_key()
                if w.subs[areg] and rng.random() < 0.6:
                    e = rng.choice(w.subs[areg])
                    if e[1] is not None:
                        kprov = e[1]            # the same provided interface as a live subscription
                w.register(areg, kreq, kprov, kname, w.newval())
            ctx.count('adapter_mutations_between_subscriptions')
        for q in range(rng.randint(1, 4)):
            li = rng.randrange(len(w.regs))
            ar = rng.choice([0, 1, 1, 2, 2, 3])
            lreq = tuple(rng.choice(w.lookspecs()) for _ in range(ar))
            lprov = rng.choice(w.P + [None, Interface])
            exp = w.m_subscriptions(li, lreq, lprov)
            if lprov is not None and rng.random() < 0.3:
                # the other multi-result entry point for the very same key first (separate caches)
                la = w.regs[li].lookupAll(lreq, lprov)
                ctx.ev()
                if not all(isinstance(x, tuple) and len(x) == 2 and isinstance(x[0], str) for x in la):
                    ctx.violation('lookupAll-result-shape', {'registry': li, 'got': repr(la)[:200]})
            if lprov is not None and rng.random() < 0.3:
                # and the single-result entry point for the same arguments (its cache is a different one)
                l1 = w.regs[li].lookup(lreq, lprov, '')
                ctx.ev()
                mexp, _info = w.m_lookup(li, lreq, lprov, '')
                if not any(l1 is x for x in mexp):
                    ctx.violation('lookup-next-to-subscriptions', {'registry': li, 'got': repr(l1)[:200], 'expected_one_of': repr(mexp)})
            got = w.regs[li].subscriptions(lreq, lprov)
            if lprov is not None and rng.random() < 0.2:
                l1 = w.regs[li].lookup(lreq, lprov, '')
                ctx.ev()
                mexp, _info = w.m_lookup(li, lreq, lprov, '')
                if not any(l1 is x for x in mexp):
                    ctx.violation('lookup-next-to-subscriptions', {'registry': li, 'got': repr(l1)[:200], 'expected_one_of': repr(mexp)})
            if lprov is not None and rng.random() < 0.2:
                la = w.regs[li].lookupAll(lreq, lprov)
                ctx.ev()
                if not all(isinstance(x, tuple) and len(x) == 2 and isinstance(x[0], str) for x in la):
                    ctx.violation('lookupAll-result-shape', {'registry': li, 'got': repr(la)[:200]})
            ctx.count('subscription_queries')
            asked7.append((li, lreq, lprov))
            del asked7[:-10]
            where = {'registry': li, 'required': nm(lreq), 'provided': nm(lprov)}
            seq = w.check_subscriptions(got, exp, where)
            if len(got) != len(set(map(id, got))) or len({e[-1].k for e in seq}) < len(seq):
                ctx.count('results_with_duplicates_or_equal_values')
            if len({e[0] for e in seq}) >= 2:
                ctx.count('results_from_2plus_registries')
            if len({(e[0], e[1]) for e in seq}) > len({e[0] for e in seq}):
                ctx.count('results_with_2plus_keys_in_one_registry')
            nt = len({(e[0], e[1]) for e in seq}) >= 2
            shapes.add((len(lreq), min(len(seq), 5), len({e[0] for e in seq}), nt))
        if rng.random() < 0.25:
            rr = rng.randrange(len(w.regs))
            # subscribed() / allSubscriptions() against the ledger
            alls = list(w.regs[rr].allSubscriptions())
            ctx.ev()
            if sorted((tuple(map(id, a)), id(b), id(c)) for a, b, c in alls) != \
                    sorted((tuple(map(id, a)), id(b), id(c)) for a, b, c in w.subs[rr]):
                ctx.violation('allSubscriptions-mismatch', {'registry': rr})
    for s in shapes:
        ctx.shape(('c07',) + s, nontrivial=s[3])


# =============================================================================
# C08

ENTRY_POINTS = ['lookup', 'lookup1', 'lookupAll', 'names', 'queryAdapter', 'adapter_hook',
                'queryMultiAdapter', 'subscriptions', 'subscribers']


def detached_entry_points(ctx, rng):
    """The entry points are bound methods one may keep (an adapter hook installed globally, say) while dropping every
    other reference to the registry: they go on answering, cached keys and new ones alike."""
    for flav, Reg in FLAVOURS.items():
        mod = util.fresh_module()
        IR, IR2, IP = util.mkiface('IR', module=mod), util.mkiface('IR2', module=mod), util.mkiface('IP', module=mod)
        base = Reg()
        reg = Reg((base,))
        v1, v2 = Val(0, 1), Val(1, 2)
        reg.register([IR], IP, '', v1)
        base.register([IR2], IP, 'n', v2)
        eps = {'lookup': reg.lookup, 'lookup1': reg.lookup1, 'lookupAll': reg.lookupAll, 'subscriptions': reg.subscriptions,
               'adapter_hook': reg.adapter_hook, 'queryAdapter': reg.queryAdapter}
        reg.lookup((IR,), IP, '')            # one key cached, the other not
        del reg, base
        gc.collect()
        ctx.ev(4)
        ctx.count('detached_entry_point_worlds')
        try:
            ok = eps['lookup']((IR,), IP, '') is v1 and eps['lookup']((IR2,), IP, 'n') is v2 and \
                eps['lookup1'](IR2, IP, 'n') is v2 and dict(eps['lookupAll']((IR2,), IP)).get('n') is v2 and \
                list(eps['subscriptions']((IR,), IP)) == []
            err = None
        except Exception as e:      # noqa
            ok, err = False, repr(e)
        if not ok:
            ctx.violation('entry-point-of-a-dropped-registry', {'flavour': flav, 'error': err})


def run_c08(ctx, rng, job):
    if ctx.case == 0:
        detached_entry_points(ctx, rng)
    if ctx.case % 4 == 0:
        rebuilt_base(ctx, rng)
    w = RW(ctx, rng, job['tier'], with_objs=True, maxregs=3)
    big = job['tier'] == 'thorough'
    # super proxies as adapted objects
    class_with_base = [c for c in w.classes if len(c.__mro__) > 2]
    sup = []
    for n_, c in enumerate(class_with_base[:2]):
        o = c()
        o.zname = 'sup_' + c.__name__
        # the builtin proxy type and a subclass of it (cooperative-call helpers subclass super)
        sup.append((SuperSubclass if n_ else super)(c, o))
    for j in range(rng.randint(3, 30 if big else 18)):
        ri = rng.randrange(len(w.regs))
        req, prov, name = w.rand_key(ar=rng.choice([0, 1, 1, 1, 2, 2]))
        if rng.random() < 0.6:
            w.register(ri, req, prov, name, w.newval())
        else:
            w.subscribe(ri, req, rng.choice(w.P + [None]), w.newval())
        # one key, all entry points in a seeded order (cold, warm-by-self, warm-by-other)
        li = rng.randrange(len(w.regs))
        reg = w.regs[li]
        ar = rng.choice([0, 1, 1, 1, 2, 2])
        pool = w.objs + sup
        obs = tuple(rng.choice(pool) for _ in range(ar))
        lreq = tuple(providedBy(o) for o in obs)
        lprov = rng.choice(w.P + [Interface])
        D = object()
        names_pool = ['', 'a', 'b', '\xfc', '\x00a']
        unwrap = [o.__self__ if isinstance(o, super) else o for o in obs]
        if any(isinstance(o, super) for o in obs):
            ctx.count('super_proxy_keys')
        # round 1: a seeded subset of the entry points (the others stay cold for this key); then something that
        # changes the answers happens (a registration in the registry or in one above it, or a declaration on one of
        # the objects / their classes); round 2: all entry points, in a new order - whichever comes first is the
        # first to notice (or not) what happened, the others are asked with its leftovers in the caches
        rounds = [('r1', rng.sample(ENTRY_POINTS, rng.randint(3, len(ENTRY_POINTS)))),
                  ('r2', rng.sample(ENTRY_POINTS, len(ENTRY_POINTS)) + rng.sample(ENTRY_POINTS, 4))]
        first = {}
        if ar >= 2 and rng.random() < 0.5:
            # the first object alone, before the multi-object key is ever asked for (the lookup object then already
            # watches the first specification when it meets the second one)
            reg.lookup(lreq[:1], lprov, '')
            ctx.count('single_object_warmups_before_multi_keys')
        for rlabel, order in rounds:
          if rlabel == 'r2':
            first = {}
            kind = rng.choice(['registry', 'registry', 'class', 'object', 'removal', 'removal'])
            if kind == 'removal':
                # an answer disappears: something registered or subscribed along the chain is taken away again
                cands = [(rj_, k_) for rj_ in (w.chain(li) or [li]) for k_ in w.adapters[rj_] if len(k_[0]) == ar]
                scands = [(rj_, e_) for rj_ in (w.chain(li) or [li]) for e_ in w.subs[rj_] if len(e_[0]) == ar]
                if cands and (not scands or rng.random() < 0.6):
                    rj_, k_ = rng.choice(cands)
                    w.unregister(rj_, k_[0], k_[1], k_[2])
                elif scands:
                    rj_, e_ = rng.choice(scands)
                    w.unsubscribe(rj_, e_[0], e_[1], e_[2] if rng.random() < 0.5 else None)
                else:
                    kind = 'registry'
            if kind == 'removal':
                pass
            elif kind == 'registry' or not obs:
                rj = rng.choice(w.chain(li) or [li])
                val = w.newval()
                if rng.random() < 0.6:
                    w.register(rj, tuple([None] * ar), rng.choice([lprov] + [p for p in w.P if p.extends(lprov)]), rng.choice(names_pool[:2]), val)
                else:
                    w.subscribe(rj, tuple([None] * ar), rng.choice([lprov, None]), val)
            else:
                o = rng.choice(unwrap)
                sel = rng.sample(w.R, rng.randint(1, min(2, len(w.R))))
                if kind == 'class' and type(o).__module__ != 'builtins':
                    ctx.op('classImplements', type(o).__name__, nm(sel))
                    classImplements(type(o), *sel)
                else:
                    ctx.op('alsoProvides', getattr(o, 'zname', '?'), nm(sel))
                    alsoProvides(o, *sel)
                lreq = tuple(providedBy(x) for x in obs)
            ctx.count('changes_between_rounds[%s]' % kind)
          for n_ep, ep in enumerate(order):
            state = rlabel + ('-cold' if not first else ('-warm-by-self' if ep in first else '-warm-by-other'))
            first.setdefault(ep, n_ep)
            ctx.count('cell[%s,%s]' % (ep, state))
            where = {'entry': ep, 'state': state, 'registry': li, 'required': nm(lreq), 'provided': nm(lprov)}
            if ep == 'lookup':
                for n in names_pool:
                    a = reg.lookup(lreq, lprov, n, D)
                    b = reg.lookup(list(lreq), lprov, n, D)
                    ctx.ev()
                    if a is not b:
                        ctx.violation('lookup-not-stable', dict(where, name=n))
            elif ep == 'lookup1' and ar == 1:
                for n in names_pool:
                    ctx.ev()
                    if reg.lookup1(lreq[0], lprov, n, D) is not reg.lookup(lreq, lprov, n, D):
                        ctx.violation('lookup1-vs-lookup', dict(where, name=n))
                ctx.ev()
                if reg.lookup1(lreq[0], lprov) is not reg.lookup(lreq, lprov):
                    ctx.violation('lookup1-vs-lookup-defaults', where)
            elif ep in ('lookupAll', 'names'):
                la = dict(reg.lookupAll(lreq, lprov))
                nms = list(reg.names(lreq, lprov))
                ctx.ev()
                if sorted(nms) != sorted(la) or len(nms) != len(set(nms)):
                    ctx.violation('names-vs-lookupAll', dict(where, names=nms, lookupAll=sorted(la)))
                for n in names_pool:
                    l = reg.lookup(lreq, lprov, n, D)
                    ctx.ev()
                    if la.get(n, D) is not l:
                        ctx.violation('lookupAll-vs-lookup', dict(where, name=n, lookupAll=repr(la.get(n, 'missing')),
                                                                  lookup=repr(l) if l is not D else 'default'))
                if len(la) >= 2:
                    ctx.count('keys_with_2plus_names')
            elif ep in ('queryAdapter', 'adapter_hook') and ar == 1:
                for n in names_pool:
                    for v_ in w.allvals:
                        del v_.calls[:]
                    # the entry point under test first, the reference (lookup) afterwards
                    form = rng.randrange(4)
                    ctx.count('adapter_call_forms[%d]' % form)
                    if form == 0:
                        got = reg.queryAdapter(obs[0], lprov, n, D) if ep == 'queryAdapter' else reg.adapter_hook(lprov, obs[0], n, D)
                    elif form == 1:     # everything by keyword, in the other entry point's order
                        got = reg.queryAdapter(provided=lprov, object=obs[0], name=n, default=D) if ep == 'queryAdapter' \
                            else reg.adapter_hook(object=obs[0], provided=lprov, default=D, name=n)
                    elif form == 2:     # everything by keyword, in the documented order
                        got = reg.queryAdapter(object=obs[0], provided=lprov, name=n, default=D) if ep == 'queryAdapter' \
                            else reg.adapter_hook(provided=lprov, object=obs[0], name=n, default=D)
                    else:               # first positional, the rest by keyword
                        got = reg.queryAdapter(obs[0], provided=lprov, default=D, name=n) if ep == 'queryAdapter' \
                            else reg.adapter_hook(lprov, object=obs[0], default=D, name=n)
                    f = reg.lookup(lreq, lprov, n)
                    ctx.ev()
                    if f is None:
                        ok = got is D
                    else:
                        ok = len(f.calls) == 1 and len(f.calls[0]) == 1 and f.calls[0][0] is unwrap[0] and \
                            (got is D if not f.ret else same_result(got, f.result((unwrap[0],))))
                    if not ok:
                        ctx.violation('adapter-call-vs-lookup', dict(where, name=n, factory=repr(f),
                                                                     got='default' if got is D else repr(got),
                                                                     calls=len(f.calls) if f is not None else None))
                # omitted default -> None
                ctx.ev()
                f = reg.lookup(lreq, lprov, '')
                got = reg.queryAdapter(obs[0], lprov)
                if (f is None or not f.ret) != (got is None):
                    ctx.violation('queryAdapter-default-none', where)
            elif ep == 'queryMultiAdapter':
                for n in names_pool:
                    for v_ in w.allvals:
                        del v_.calls[:]
                    got = reg.queryMultiAdapter(obs, lprov, n, D)
                    f = reg.lookup(lreq, lprov, n)
                    ctx.ev()
                    if f is None:
                        ok = got is D
                    else:
                        ok = len(f.calls) == 1 and len(f.calls[0]) == ar and all(a is b for a, b in zip(f.calls[0], unwrap)) and \
                            (got is D if not f.ret else same_result(got, f.result(tuple(unwrap))))
                    if not ok:
                        ctx.violation('queryMultiAdapter-vs-lookup', dict(where, name=n, factory=repr(f)))
            elif ep in ('subscriptions', 'subscribers'):
                for sp in (lprov, None):
                    for v_ in w.allvals:
                        del v_.calls[:]
                    if ep == 'subscribers':
                        got = reg.subscribers(obs, sp)
                        subs = list(reg.subscriptions(lreq, sp))
                    else:
                        subs = list(reg.subscriptions(lreq, sp))
                        for v_ in w.allvals:
                            del v_.calls[:]
                        got = reg.subscribers(obs, sp)
                    ctx.ev()
                    if any(v_.calls and not any(v_ is x for x in subs) for v_ in w.allvals):
                        ctx.violation('subscribers-called-something-else', dict(where, handlers=sp is None))
                    called_ok = all(len(s.calls) == sum(1 for x in subs if x is s) for s in subs) and \
                        all(len(c) == len(obs) and all(a is b for a, b in zip(c, obs)) for s in subs for c in s.calls)
                    if sp is None:
                        ok = called_ok and (got == () or got == [] or got is None)
                    else:
                        exp = [s.result(obs) for s in subs if s.ret]
                        ok = called_ok and len(got) == len(exp) and all(same_result(g_, e_) for g_, e_ in zip(got, exp))
                        if any(not e_ and e_ is not None for e_ in exp):
                            ctx.count('subscriber_results_falsy_not_none')
                    if not ok:
                        ctx.violation('subscribers-vs-subscriptions', dict(where, handlers=sp is None, subscriptions=repr(subs), got=repr(got)))
                    if subs:
                        ctx.count('subscriber_calls_checked')
        # non-string names rejected on every path, cold or warm (also a specification where the name belongs - swapped
        # arguments); and the rejected calls leave nothing behind: the specification's own answers are as before
        spec_as_name = lreq[0] if ar else rng.choice(w.R)
        for badname in (None, b'x', 3, spec_as_name):
            calls = [('lookup', lambda: reg.lookup(lreq, lprov, badname)),
                     ('lookup1', lambda: reg.lookup1(lreq[0] if ar else Interface, lprov, badname)),
                     ('queryAdapter', lambda: reg.queryAdapter(w.objs[0], lprov, badname)),
                     ('adapter_hook', lambda: reg.adapter_hook(lprov, w.objs[0], badname)),
                     ('queryMultiAdapter', lambda: reg.queryMultiAdapter(obs, lprov, badname))]
            for label, call in calls:
                ctx.ev()
                ctx.count('valueerror_probes')
                try:
                    call()
                    ctx.violation('non-string-name-accepted', {'entry': label, 'name': repr(badname)})
                except ValueError:
                    pass
        ctx.ev()
        la_ = dict(reg.lookupAll((spec_as_name,), lprov))
        l1_ = reg.lookup1(spec_as_name, lprov, '', D)
        if la_.get('', D) is not l1_ or reg.lookup((spec_as_name,), lprov, '', D) is not l1_:
            ctx.violation('lookup-after-rejected-name', {'registry': li, 'specification': nm(spec_as_name), 'provided': nm(lprov),
                                                         'lookup1': repr(l1_) if l1_ is not D else 'default',
                                                         'lookupAll': repr(la_.get('', 'missing'))})
        ctx.shape(('c08', ar, len(dict(reg.lookupAll(lreq, lprov))), tuple(order[:3])),
                  nontrivial=len(dict(reg.lookupAll(lreq, lprov))) >= 1)


# =============================================================================
# C09

def run_c09(ctx, rng, job):
    if ctx.case % 4 == 0:
        rebuilt_base(ctx, rng)          # "calling rebuild() yields a registry that answers every lookup identically" - also below it
    w = RW(ctx, rng, job['tier'], with_objs=True, maxregs=2)
    big = job['tier'] == 'thorough'
    keys = {i: [] for i in range(len(w.regs))}
    skeys = {i: [] for i in range(len(w.regs))}
    rawreq = {}      # key -> the required sequence as it was passed (None where the caller said None)
    kinds = []
    sibling_removals = 0

    def rq(k):
        # the required part of an existing key, half of the time as the caller originally wrote it (with None)
        return rawreq.get(k, k[0]) if rng.random() < 0.5 else k[0]

    def rqs(e):
        return rawreq.get((e[0], e[1], id(e[2])), e[0]) if rng.random() < 0.5 else e[0]
    for step in range(rng.randint(5, 60 if big else 35)):
        ri = rng.randrange(len(w.regs))
        op = rng.choice(['reg', 'reg', 'reg', 'overwrite', 'same', 'unreg', 'unregv', 'unregeq', 'unregother',
                         'regnone', 'sub', 'sub', 'subdup', 'unsub', 'unsubv', 'unsubmissing', 'rebuild'])
        cur_keys = list(w.adapters[ri])
        if op == 'reg' or (op in ('overwrite', 'same', 'unreg', 'unregv', 'unregeq', 'unregother', 'regnone') and not cur_keys):
            req, prov, name = w.rand_key()
            if cur_keys and rng.random() < 0.5:
                # share a prefix with an existing key (nested container siblings)
                k = rng.choice(cur_keys)
                req = k[0]
                if rng.random() < 0.5:
                    prov = k[1]
            w.register(ri, req, prov, name, w.newval())
            keys[ri].append((w.norm(req), prov, name))
            rawreq[(w.norm(req), prov, name)] = req
            op = 'reg'
        elif op == 'overwrite':
            k = rng.choice(cur_keys)
            w.register(ri, rq(k), k[1], k[2], w.newval())
        elif op == 'same':
            k = rng.choice(cur_keys)
            g0 = getattr(w.regs[ri], '_generation', None)
            w.register(ri, rq(k), k[1], k[2], w.adapters[ri][k])
            # re-registering the very object is a no-op: nothing changes, nobody is told (read from the change counter
            # that verifying registries go by; not judged if a registry has none)
            g1 = getattr(w.regs[ri], '_generation', None)
            if isinstance(g0, int) and isinstance(g1, int):
                ctx.ev()
                ctx.count('identical_reregistrations')
                if g1 != g0:
                    ctx.violation('identical-registration-not-a-noop', {'registry': ri, 'generation_before': g0, 'generation_after': g1})
        elif op == 'unreg':
            k = rng.choice(cur_keys)
            sib = any(o is not k and o[0] == k[0] for o in cur_keys)
            w.unregister(ri, rq(k), k[1], k[2])
            sibling_removals += sib
        elif op == 'regnone':
            k = rng.choice(cur_keys)
            w.register(ri, rq(k), k[1], k[2], None)
        elif op == 'unregv':
            k = rng.choice(cur_keys)
            w.unregister(ri, rq(k), k[1], k[2], w.adapters[ri][k])
        elif op == 'unregeq':
            k = rng.choice(cur_keys)
            w.unregister(ri, k[0], k[1], k[2], Val(w.adapters[ri][k].k, -1))   # equal, not identical: no-op
        elif op == 'unregother':
            k = rng.choice(cur_keys)
            if rng.random() < 0.5:
                w.unregister(ri, k[0], k[1], k[2], w.newval())
            else:
                # a name (or a provided interface) nothing is registered under, next to an existing entry: nothing to remove
                absent = [n_ for n_ in ('', 'a', 'b', 'zz') if (k[0], k[1], n_) not in w.adapters[ri]]
                if absent and rng.random() < 0.6:
                    w.unregister(ri, rq(k), k[1], rng.choice(absent))
                else:
                    others = [p_ for p_ in w.P if (k[0], p_, k[2]) not in w.adapters[ri]]
                    if others:
                        w.unregister(ri, rq(k), rng.choice(others), k[2])
                ctx.count('unregistrations_of_an_absent_entry_next_to_an_existing_one')
        elif op in ('sub', 'subdup') or (op in ('unsub', 'unsubv') and not w.subs[ri]):
            req, prov, _ = w.rand_key(ar=rng.choice([0, 1, 1, 2]))
            prov = rng.choice(w.P + [None])
            if op == 'subdup' and w.subs[ri]:
                e = rng.choice(w.subs[ri])
                req, prov = e[0], e[1]
            v = w.newval()
            w.subscribe(ri, req, prov, v)
            skeys[ri].append((w.norm(req), prov, v))
            rawreq[(w.norm(req), prov, id(v))] = req
            op = 'sub'
        elif op == 'unsub':
            e = rng.choice(w.subs[ri])
            w.unsubscribe(ri, rqs(e), e[1])
        elif op == 'unsubv':
            e = rng.choice(w.subs[ri])
            w.unsubscribe(ri, rqs(e), e[1], Val(e[2].k, -1) if rng.random() < 0.5 else e[2])
        elif op == 'unsubmissing':
            req, prov, _ = w.rand_key(ar=rng.choice([0, 1, 2]))
            w.unsubscribe(ri, req, rng.choice(w.P + [None]), w.newval())
        elif op == 'rebuild':
            ctx.op('rebuild', ri)
            w.regs[ri].rebuild()
            ctx.count('rebuilds')
        if rng.random() < 0.06:
            # a registered value whose finalizer cleans up after it: when it goes (here: when it is unregistered and
            # nobody else holds it) it removes the entry next to it.  Whenever exactly the finalizer runs, both entries
            # are gone afterwards and everything else is as before.
            reg = w.regs[ri]
            req_, prov_, _n = w.rand_key(ar=rng.choice([1, 1, 2]))
            nreq_ = w.norm(req_)
            if not any(k_[0] == nreq_ and k_[1] is prov_ for k_ in w.adapters[ri]):
                class Cleaner:
                    def __init__(self):
                        self.calls = []

                    def __del__(self):
                        reg.unregister(req_, prov_, 'sibling')
                v_sib = w.newval()
                reg.register(req_, prov_, 'cleaner', Cleaner())
                reg.register(req_, prov_, 'sibling', v_sib)
                ctx.op('unregister-with-a-cleaning-finalizer', ri, nm(req_), nm(prov_))
                try:
                    reg.unregister(req_, prov_, 'cleaner')
                except Exception as e:
                    ctx.violation('unregister-raised', {'registry': ri, 'error': repr(e)[:200]})
                gc.collect()
                ctx.ev()
                ctx.count('unregistrations_with_a_cleaning_finalizer')
                if reg.registered(req_, prov_, 'cleaner') is not None or reg.registered(req_, prov_, 'sibling') is not None:
                    ctx.violation('registered-mismatch', {'registry': ri, 'after': 'unregistering a value whose finalizer removes its sibling'})
        kinds.append(op)
        # ---- after every step: bookkeeping equals the ledger -------------------
        for rr, reg in enumerate(w.regs):
            for k in keys[rr]:
                ctx.ev()
                # asked both with the normalised key and with the key as the caller wrote it (None = Interface)
                q = rawreq.get(k, k[0]) if rng.random() < 0.5 else k[0]
                if any(x is None for x in q):
                    ctx.count('bookkeeping_queries_with_None_required')
                if reg.registered(q, k[1], k[2]) is not w.adapters[rr].get(k):
                    ctx.violation('registered-mismatch', {'registry': rr, 'key': nm(k[0]) + nm(k[1]) + repr(k[2]),
                                                          'got': repr(reg.registered(*k)), 'expected': repr(w.adapters[rr].get(k))})
            allr = list(reg.allRegistrations())
            ctx.ev()
            got = {(tuple(map(id, a)), id(b), c): d for a, b, c, d in allr}
            exp = {(tuple(map(id, a)), id(b), c): d for (a, b, c), d in w.adapters[rr].items()}
            if len(allr) != len(got) or set(got) != set(exp) or any(got[k] is not exp[k] for k in got):
                ctx.violation('allRegistrations-mismatch', {'registry': rr, 'got': len(got), 'expected': len(exp)})
            alls = list(reg.allSubscriptions())
            ctx.ev()
            if sorted((tuple(map(id, a)), id(b), id(c)) for a, b, c in alls) != \
                    sorted((tuple(map(id, a)), id(b), id(c)) for a, b, c in w.subs[rr]):
                ctx.violation('allSubscriptions-mismatch', {'registry': rr, 'got': len(alls), 'expected': len(w.subs[rr])})
            for (a, b, v) in skeys[rr][-12:]:
                live = [e for e in w.subs[rr] if len(e[0]) == len(a) and all(x is y for x, y in zip(e[0], a)) and e[1] is b]
                exp_found = any(e[2] == v for e in live)
                q = rawreq.get((a, b, id(v)), a) if rng.random() < 0.5 else a
                if any(x is None for x in q):
                    ctx.count('bookkeeping_queries_with_None_required')
                g = reg.subscribed(q, b, v)
                ctx.ev()
                if (g is not None) != exp_found or (g is not None and g is not v):
                    ctx.violation('subscribed-mismatch', {'registry': rr, 'value': repr(v), 'got': repr(g), 'expected_found': exp_found})
        # ---- periodically: replay / rebuild differentials ----------------------
        if rng.random() < 0.15:
            ctx.count('replay_differentials')
            twins = []
            for rr, reg in enumerate(w.regs):
                t = w.Reg(tuple(twins[w.index_of(b)] for b in reg.__bases__))
                for a in reg.allRegistrations():
                    t.register(*a)
                for a in reg.allSubscriptions():
                    t.subscribe(*a)
                twins.append(t)
            for q in range(12):
                li = rng.randrange(len(w.regs))
                lreq, lprov, lname = w.rand_query()
                exp, info = w.m_lookup(li, lreq, lprov, lname)
                if len(exp) != 1:
                    continue            # ambiguous: order of unrelated provided interfaces is history dependent
                a = w.regs[li].lookup(lreq, lprov, lname)
                b = twins[li].lookup(lreq, lprov, lname)
                ctx.ev()
                ctx.count('replay_probes')
                if a is not b or a is not exp[0]:
                    ctx.violation('replayed-registry-differs', {'registry': li, 'required': nm(lreq), 'provided': nm(lprov),
                                                                'name': lname, 'original': repr(a), 'replayed': repr(b), 'model': repr(exp)})
                sa = w.regs[li].subscriptions(lreq, lprov)
                sb = twins[li].subscriptions(lreq, lprov)
                ctx.ev()
                if sorted(map(id, sa)) != sorted(map(id, sb)):
                    ctx.violation('replayed-subscriptions-differ', {'registry': li})
    ctx.count('removals_with_sibling_left', sibling_removals)
    ctx.shape(('c09', tuple(kinds)), nontrivial=sibling_removals > 0 or 'overwrite' in kinds)



# =============================================================================
# C05  warm registry vs cold replay of the same mutation log

def _counting(Reg):
    """Registry flavour whose lookup object counts uncached computations (so a
    warm call can be confirmed to have been served from the cache)."""
    Base = Reg.LookupClass

    class CountingLookup(Base):
        n_uncached = 0
        pending = None      # run once, right after the next uncached computation (a mutation overlapping a lookup)

        def _after(self):
            p, self.pending = self.pending, None
            if p is not None:
                p()

        def _uncached_lookup(self, required, provided, name=''):
            self.n_uncached += 1
            r = Base._uncached_lookup(self, required, provided, name)
            self._after()
            return r

        def _uncached_lookupAll(self, required, provided):
            self.n_uncached += 1
            r = Base._uncached_lookupAll(self, required, provided)
            self._after()
            return r

        def _uncached_subscriptions(self, required, provided):
            self.n_uncached += 1
            r = Base._uncached_subscriptions(self, required, provided)
            self._after()
            return r

    class CountingRegistry(Reg):
        LookupClass = CountingLookup
    return CountingRegistry


MUTATION_KINDS = ['register', 'unregister', 'subscribe', 'unsubscribe', 'registry_bases', 'spec_bases',
                  'class_declaration', 'object_declaration']


def run_c05(ctx, rng, job):
    w = RW(ctx, rng, job['tier'], with_objs=True, maxregs=4, chainy=True)
    big = job['tier'] == 'thorough'
    CReg = _counting(w.Reg)
    # replace the world's registries by counting ones (same shape)
    shape = [[w.index_of(b) for b in r.__bases__] for r in w.regs]
    w.regs = []
    for bs in shape:
        w.regs.append(CReg(tuple(w.regs[j] for j in bs)))
    log = [(i, 'bases', list(bs)) for i, bs in enumerate(shape)]
    sup = []
    for c in [c for c in w.classes if len(c.__mro__) > 2][:1]:
        o = c()
        o.zname = 'sup_' + c.__name__
        sup.append(super(c, o))

    def apply(regs, entry):
        ri, meth, args = entry
        if meth == 'bases':
            regs[ri].__bases__ = tuple(regs[j] for j in args)
        else:
            getattr(regs[ri], meth)(*args)

    def cold():
        rs = [w.Reg(()) for _ in shape]
        for e in log:
            apply(rs, e)
        return rs

    D = object()

    class Unordered(tuple):
        # a caller's own sequence type whose notion of equality is coarser than a tuple's (an unordered pair): to the
        # registry it is a sequence of specifications like any other
        def __eq__(self, other):
            return isinstance(other, tuple) and sorted(map(id, self)) == sorted(map(id, other))

        def __ne__(self, other):
            return not self.__eq__(other)

        def __hash__(self):
            return hash(frozenset(map(id, self)))

    def ask(rs, q):
        ep, ri, req, prov, name, obs = q
        r = rs[ri]
        if req is not None and rs is w.regs and len(req) >= 2 and (len(ep) + len(name) + sum(w.order_of(x) for x in req)) % 2 == 0:
            req = Unordered(req)
            ctx.count('lookups_with_a_tuple_subclass_of_coarser_equality')
        if ep == 'lookup':
            return r.lookup(req, prov, name, D)
        if ep == 'lookup1':
            return r.lookup1(req[0], prov, name, D)
        if ep == 'lookupAll':
            return tuple(r.lookupAll(req, prov))
        if ep == 'names':
            return list(r.names(req, prov))
        if ep == 'subscriptions':
            return list(r.subscriptions(req, prov))
        if ep == 'queryAdapter':
            return r.queryAdapter(obs[0], prov, name, D)
        if ep == 'adapter_hook':
            return r.adapter_hook(prov, obs[0], name, D)
        if ep == 'queryMultiAdapter':
            return r.queryMultiAdapter(obs, prov, name, D)
        if ep == 'subscribers':
            return r.subscribers(obs, prov)
        raise AssertionError(ep)

    def same(a, b):
        if isinstance(a, (list, tuple)) and isinstance(b, (list, tuple)):
            return type(a) is type(b) and len(a) == len(b) and all(same(x, y) for x, y in zip(a, b))
        if isinstance(a, (str, int)) or a is None:
            return a == b
        return a is b

    def newq():
        ep = rng.choice(ENTRY_POINTS)
        ri = rng.randrange(len(w.regs))
        ar = 1 if ep in ('lookup1', 'queryAdapter', 'adapter_hook') else rng.choice([0, 1, 1, 2])
        obs = tuple(rng.choice(w.objs + sup) for _ in range(ar))
        if ep in ('queryAdapter', 'adapter_hook', 'queryMultiAdapter', 'subscribers'):
            req = None
        else:
            req = tuple(rng.choice(w.lookspecs()) for _ in range(ar))
        if ep in ('subscriptions', 'subscribers'):
            prov = rng.choice(w.P + [None])
        else:
            prov = rng.choice(w.P + [Interface])
        return (ep, ri, req, prov, rng.choice(['', 'a']), obs)

    followup = []
    steer = []        # (registry index, number of further changes wanted) after a rebuild()

    def mutate():
        if rng.random() < 0.08:
            # a short-lived specification is looked up with (the registries subscribe to it) and dies before the next
            # change: the invalidation that follows finds a dead reference among the watched specifications
            tmp = InterfaceClass('ITmp%d' % len(log), (rng.choice(w.R),), {}, __module__=w.R[0].__module__)
            for r_ in w.regs:
                r_.lookup([tmp], rng.choice(w.P), '')
                r_.subscriptions([tmp], rng.choice(w.P))
                r_.lookupAll([tmp], rng.choice(w.P))
            del tmp
            gc.collect()
            ctx.count('watched_specifications_that_died')
        k = rng.choice(MUTATION_KINDS + ['register', 'subscribe', 'rebuild'])
        ri = rng.randrange(len(w.regs))
        if steer:
            # after a rebuild(): as many further changes in that registry as it takes to bring its change counter
            # back to where it was (a registry that counts changes from scratch after rebuild() would look unchanged
            # to a verifying registry below it)
            ri, n = steer.pop()
            k = rng.choice(['register', 'subscribe'])
            if n > 1:
                steer.append((ri, n - 1))
        if followup and rng.random() < 0.6:
            # right after a registry was re-based (and the keys were asked again): a change in one of its *new*
            # ancestors - the descendants have to notice changes along the new chain, not the old one
            k = rng.choice(['register', 'subscribe', 'register'])
            ri = rng.choice(followup)
            ctx.count('mutations_in_a_newly_acquired_ancestor')
        del followup[:]
        ar = rng.choice([0, 1, 1, 1, 2, 2])
        req = tuple(rng.choice(w.keyspecs()) for _ in range(ar))
        prov = rng.choice(w.P)
        name = rng.choice(['', '', 'a'])
        e = None
        if k == 'register':
            e = (ri, 'register', (req, prov, name, w.newval()))
        elif k == 'unregister':
            regd = [x for x in log if x[1] == 'register']
            if not regd:
                return None
            x = rng.choice(regd)
            e = (x[0], 'unregister', x[2][:3])
        elif k == 'subscribe':
            e = (ri, 'subscribe', (req, rng.choice(w.P + [None]), w.newval()))
        elif k == 'unsubscribe':
            subd = [x for x in log if x[1] == 'subscribe']
            if not subd:
                return None
            x = rng.choice(subd)
            e = (x[0], 'unsubscribe', x[2][:2] + ((x[2][2],) if rng.random() < .5 else ()))
        elif k == 'rebuild':
            g0 = getattr(w.regs[ri], '_generation', None)
            e = (ri, 'rebuild', ())
            ctx.op('rebuild', ri)
            log.append(e)
            apply(w.regs, e)
            g1 = getattr(w.regs[ri], '_generation', None)
            ctx.count('rebuilds_between_lookups')
            if isinstance(g0, int) and isinstance(g1, int) and 0 < g0 - g1 <= 4 and rng.random() < 0.7:
                steer.append((ri, g0 - g1))
            return k
        elif k == 'registry_bases':
            i = rng.randrange(len(w.regs))
            idx = rng.sample(range(i), min(i, rng.choice([0, 1, 1, 2])))
            try:
                w.pyreg[i].__bases__ = tuple(w.pyreg[j] for j in idx) or (object,)
            except TypeError:
                return None
            e = (i, 'bases', idx)
            # the new bases and everything above them
            for j in idx:
                followup.extend(w.index_of(r) for r in w.regs[j].ro)
        elif k == 'spec_bases':
            if len(w.R) < 2:
                return None
            i = rng.randrange(1, len(w.R))
            nb = tuple(rng.sample(w.R[:i], min(i, rng.choice([0, 1, 2])))) or (Interface,)
            ctx.op('spec_bases', w.R[i].__name__, nm(nb))
            w.R[i].__bases__ = nb
            return k
        elif k == 'class_declaration':
            c = rng.choice(w.classes)
            sel = rng.sample(w.R, rng.randint(0, min(2, len(w.R))))
            only = rng.random() < .3
            ctx.op('class_declaration', c.__name__, nm(sel), only)
            (classImplementsOnly if only else classImplements)(c, *sel)
            return k
        elif k == 'object_declaration':
            o = rng.choice(w.objs)
            sel = rng.sample(w.R, rng.randint(0, min(2, len(w.R))))
            r = rng.random()
            ctx.op('object_declaration', o.zname, nm(sel), round(r, 2))
            if r < .4:
                directlyProvides(o, *sel)
            elif r < .7:
                alsoProvides(o, *sel)
            elif sel:
                try:
                    noLongerProvides(o, sel[0])
                except ValueError:
                    pass
            return k
        ctx.op(e[1], e[0], *[nm(a) if not isinstance(a, (str, Val)) else repr(a) for a in e[2]])
        log.append(e)
        apply(w.regs, e)
        # keep the model in step for the second opinion
        if e[1] == 'register':
            key = (w.norm(e[2][0]), e[2][1], e[2][2])
            w.adapters[e[0]].pop(key, None)
            w.adapters[e[0]][key] = e[2][3]
        elif e[1] == 'unregister':
            w.adapters[e[0]].pop((w.norm(e[2][0]), e[2][1], e[2][2]), None)
        return k

    seen = []          # (query, last cold answer)
    kinds = []
    for step in range(rng.randint(4, 30 if big else 18)):
        k = mutate()
        if k is None:
            continue
        kinds.append(k)
        # bursts: several mutations before anything is looked up again (and always the whole steered sequence)
        extra = rng.choice([0, 0, 0, 1, 2, 3])
        while extra > 0 or steer:
            extra -= 1
            k2 = mutate()
            if k2 is not None:
                kinds.append(k2)
                ctx.count('mutations_in_a_burst')
                k = k2
        qs = seen[-14:] + [(newq(), None) for _ in range(4)]
        # the same specifications in another order are another key
        for q0, _p in list(qs):
            if q0[2] is not None and len(q0[2]) == 2 and q0[2][0] is not q0[2][1] and rng.random() < 0.5:
                qs.append(((q0[0], q0[1], (q0[2][1], q0[2][0]), q0[3], q0[4], q0[5]), None))
                ctx.count('probes_with_required_in_swapped_order')
        cr = cold()
        nxt = []
        for q, prev in qs:
            wa = ask(w.regs, q)
            ca = ask(cr, q)
            ctx.ev()
            ctx.count('probes')
            if not same(wa, ca):
                ctx.violation('warm-differs-from-cold', {
                    'entry': q[0], 'registry': q[1], 'required': nm(q[2]) if q[2] is not None else [o.zname if hasattr(o, 'zname') else 'super' for o in q[5]],
                    'provided': nm(q[3]), 'name': q[4], 'warm': repr(wa) if wa is not D else 'default',
                    'cold': repr(ca) if ca is not D else 'default', 'after_mutation': k})
            if prev is not None:
                ctx.count('pair[%s,%s]' % (q[0], k))
                if not same(prev[0], ca):
                    ctx.count('answers_changed_by_mutation')
                    ctx.count('changed[%s]' % k)
                    w.nontrivial = True
            # cache-hit confirmation: asking again must not recompute
            lk = w.regs[q[1]]._v_lookup
            n0 = lk.n_uncached
            wa2 = ask(w.regs, q)
            if lk.n_uncached == n0:
                ctx.count('cache_hits_confirmed')
            if not same(wa, wa2):
                ctx.violation('warm-not-stable', {'entry': q[0], 'registry': q[1]})
            # second opinion from the model (unambiguous plain lookups only)
            if q[0] == 'lookup':
                exp, info = w.m_lookup(q[1], q[2], q[3], q[4])
                ctx.ev()
                if len(exp) == 1 and not (wa is exp[0] or (exp[0] is None and wa is D)):
                    ctx.violation('warm-and-cold-differ-from-model', {'entry': 'lookup', 'registry': q[1], 'required': nm(q[2]),
                                                                      'provided': nm(q[3]), 'name': q[4], 'warm': repr(wa), 'model': repr(exp)})
            nxt.append((q, (ca,)))
        if rng.random() < 0.25:
            # a mutation that overlaps a lookup: it happens right after the uncached computation of a never-asked key
            # has finished and before its answer is stored.  What that call returns is not judged (C11); from the next
            # call on the key must be answered as by a registry without earlier lookups.
            q = newq()
            if q[0] in ('lookup', 'lookup1', 'queryAdapter', 'adapter_hook', 'queryMultiAdapter', 'lookupAll', 'names', 'subscriptions'):
                ar = len(q[5]) if q[2] is None else len(q[2])
                rj = rng.choice(w.chain(q[1]) or [q[1]])
                if q[0] == 'subscriptions':
                    e = (rj, 'subscribe', (tuple([None] * ar), q[3], w.newval()))
                else:
                    prov = q[3] if q[3] is not Interface else rng.choice(w.P)
                    e = (rj, 'register', (tuple([None] * ar), prov, q[4], w.newval()))
                ran = []

                def overlap(e=e):
                    ran.append(1)
                    ctx.op('overlapping-' + e[1], e[0], *[nm(a) if not isinstance(a, (str, Val)) else repr(a) for a in e[2]])
                    log.append(e)
                    apply(w.regs, e)
                    if e[1] == 'register':
                        key = (w.norm(e[2][0]), e[2][1], e[2][2])
                        w.adapters[e[0]].pop(key, None)
                        w.adapters[e[0]][key] = e[2][3]
                lk = w.regs[q[1]]._v_lookup
                lk.pending = overlap
                ask(w.regs, q)                     # the interrupted call
                lk.pending = None
                if ran:
                    ctx.count('mutations_overlapping_a_lookup')
                    wa, ca = ask(w.regs, q), ask(cold(), q)
                    ctx.ev()
                    if not same(wa, ca):
                        ctx.violation('warm-differs-from-cold', {
                            'entry': q[0] + ' (after a %s that overlapped the first lookup of this key)' % e[1], 'registry': q[1],
                            'provided': nm(q[3]), 'name': q[4], 'warm': repr(wa) if wa is not D else 'default',
                            'cold': repr(ca) if ca is not D else 'default', 'after_mutation': e[1]})
        seen = (seen + nxt[-4:])[-40:]
        # refresh stored cold answers of re-probed queries
        upd = {id(q): a for q, a in nxt}
        seen = [(q, upd.get(id(q), a)) for q, a in seen]
        if rng.random() < .25:
            gc.collect()
    ctx.shape(('c05', tuple(kinds)), nontrivial=getattr(w, 'nontrivial', False))


# =============================================================================
# C06  registries consult exactly their current base chain

def run_c06(ctx, rng, job):
    if ctx.case % 4 == 0:
        rebuilt_base(ctx, rng)
    if ctx.case % 4 == 1:
        rebase_with_failing_generation(ctx, rng)
    w = RW(ctx, rng, job['tier'], with_objs=False, maxregs=5, chainy=True)
    big = job['tier'] == 'thorough'
    n = len(w.regs)
    # same shape, with lookup objects that can run something right after an uncached computation
    CReg = _counting(w.Reg)
    shape0 = [[w.index_of(b) for b in r.__bases__] for r in w.regs]
    w.regs = []
    for bs in shape0:
        w.regs.append(CReg(tuple(w.regs[j] for j in bs)))
    # distinguishing registrations in every member
    probes = []
    for ri in range(n):
        for _ in range(rng.randint(1, 3)):
            req, prov, name = w.rand_key(ar=rng.choice([0, 1, 1, 2]))
            w.register(ri, req, prov, name, w.newval())
            w.subscribe(ri, req, rng.choice([prov, None]), w.newval())
    kinds = []
    # a share of the worlds may re-base registries into base lists without a C3 order (the library then falls back
    # to its legacy order); the reference there is a freshly built registry graph of the same shape
    w.allow_inconsistent = rng.random() < 0.2

    def check(tag, only=None):
        # members are probed in a seeded order, sometimes only one of them: probing an
        # intermediate registry first can repair (and so mask) staleness further down
        order = list(range(len(w.regs)))
        rng.shuffle(order)
        if only is not None:
            order = [only]
        for ri in order:
            reg = w.regs[ri]
            chain = w.chain(ri)
            ro_attr = getattr(reg, 'ro', None)
            if w.flavour == 'verifying':
                # verifying registries get no notifications: their ``ro`` is
                # brought up to date by the generation check of the next lookup - whichever entry point that is
                first = rng.choice(['lookup', 'lookupAll', 'subscriptions'])
                ctx.count('first_call_after_a_change[%s]' % first)
                if first == 'lookup':
                    reg.lookup((), Interface, '')
                else:
                    freq, fprov, _fn = w.rand_query(ar=rng.choice([0, 1, 1, 2]))
                    rr_ = rng.randrange(n)
                    if w.adapters[rr_]:
                        (freq, fprov, _fn) = rng.choice(list(w.adapters[rr_]))
                    if first == 'lookupAll':
                        fla = dict(reg.lookupAll(freq, fprov))
                        ctx.ev()
                        if set(fla) != w.m_names(ri, freq, fprov, chain):
                            ctx.violation('chain-lookupAll-wrong', {'registry': ri, 'got': sorted(fla), 'expected': sorted(w.m_names(ri, freq, fprov, chain)),
                                                                    'chain': chain, 'after': tag, 'first_call_after_the_change': True})
                    else:
                        fse = w.m_subscriptions(ri, freq, fprov, chain)
                        w.check_subscriptions(reg.subscriptions(freq, fprov), fse, {'registry': ri, 'required': nm(freq), 'provided': nm(fprov),
                                                                                   'chain': chain, 'after': tag, 'first_call_after_the_change': True})
                ro_attr = getattr(reg, 'ro', None)
            if ro_attr is not None:
                got = [w.index_of(r) for r in ro_attr]
                ctx.ev()
                ctx.count('ro_invariant_checks')
                if got != chain:
                    ctx.violation('registry-ro-stale', {'registry': ri, 'ro': got, 'c3_of_current_bases': chain, 'after': tag,
                                                        'bases': [[w.index_of(b) for b in r.__bases__] for r in w.regs],
                                                        'flavour': w.flavour}, mechanism=None)
            for q in range(3):
                lreq, lprov, lname = w.rand_query(ar=rng.choice([0, 1, 1, 2]))
                if rng.random() < 0.6:
                    # aim at a registration somewhere in the world
                    rr = rng.randrange(n)
                    if w.adapters[rr]:
                        (kreq, kprov, kname) = rng.choice(list(w.adapters[rr]))
                        lreq, lprov, lname = kreq, kprov, kname
                if rng.random() < 0.08:
                    # a registration somewhere along the chain lands while this registry is computing its answer for
                    # the key (right after the uncached walk, before the answer is stored); the call itself is not
                    # judged, the probes below are
                    rj = rng.choice(chain)
                    ran = []

                    def overlap(rj=rj, lreq=lreq, lprov=lprov, lname=lname):
                        ran.append(1)
                        w.register(rj, tuple([None] * len(lreq)), lprov if lprov is not Interface else rng.choice(w.P), lname, w.newval())
                    reg._v_lookup.pending = overlap
                    reg.lookup(lreq, lprov, lname)
                    reg._v_lookup.pending = None
                    if ran:
                        ctx.count('registrations_overlapping_a_lookup')
                exp, info = w.m_lookup(ri, lreq, lprov, lname, chain)
                got = reg.lookup(lreq, lprov, lname)
                ctx.ev()
                ctx.count('behaviour_probes')
                if info['depth']:
                    ctx.count('probes_answered_by_an_ancestor')
                if not any(got is e for e in exp):
                    ctx.violation('chain-lookup-wrong', {'registry': ri, 'required': nm(lreq), 'provided': nm(lprov), 'name': lname,
                                                         'got': repr(got), 'expected_one_of': repr(exp), 'chain': chain, 'after': tag,
                                                         'ro': [w.index_of(r) for r in reg.ro], 'flavour': w.flavour})
                names = w.m_names(ri, lreq, lprov, chain)
                la = dict(reg.lookupAll(lreq, lprov))
                ctx.ev()
                if set(la) != names:
                    ctx.violation('chain-lookupAll-wrong', {'registry': ri, 'got': sorted(la), 'expected': sorted(names), 'chain': chain, 'after': tag})
                # ... and under every name the value of the nearest registry that has one
                for n_, v_ in la.items():
                    e_, _i = w.m_lookup(ri, lreq, lprov, n_, chain)
                    ctx.ev()
                    if not any(v_ is x for x in e_):
                        ctx.violation('chain-lookupAll-wrong', {'registry': ri, 'name': n_, 'got': repr(v_), 'expected_one_of': repr(e_),
                                                                'chain': chain, 'after': tag})
                sprov = rng.choice([lprov, None])
                se = w.m_subscriptions(ri, lreq, sprov, chain)
                sg = reg.subscriptions(lreq, sprov)
                w.check_subscriptions(sg, se, {'registry': ri, 'required': nm(lreq), 'provided': nm(sprov), 'chain': chain, 'after': tag})

    check('initial')
    for step in range(rng.randint(2, 14 if big else 8) * (2 if w.allow_inconsistent else 1)):
        r = rng.random()
        if w.allow_inconsistent:
            r *= 0.62          # mostly re-basings in these worlds
        if r < 0.55 and n > 1:
            i = rng.randrange(1, n)
            parents = [k for k in range(1, n) if any(w.regs[k] in x.__bases__ for x in w.regs)]
            if parents and rng.random() < 0.7:
                i = rng.choice(parents)        # re-base a registry that others are based on
            idx = rng.sample(range(i), min(i, rng.choice([0, 1, 1, 2, 2] if not w.allow_inconsistent else [1, 2, 2, 2, 3])))
            if not w.allow_inconsistent:
                try:
                    w.pyreg[i].__bases__ = tuple(w.pyreg[j] for j in idx) or (object,)
                except TypeError:
                    continue
            before = [w.chain(k) for k in range(n)]
            ctx.op('registry_bases', i, idx)
            w.regs[i].__bases__ = tuple(w.regs[j] for j in idx)
            after = [w.chain(k) for k in range(n)]
            if w.allow_inconsistent and any(util.c3(r, lambda x: x.__bases__) is None for r in w.regs):
                ctx.count('rebasings_into_inconsistent_base_lists')
            below = [k for k in range(n) if k != i and before[k] != after[k]]
            kinds.append('rebase')
            ctx.count('rebasings')
            if below:
                ctx.count('rebasings_changing_a_descendant_chain')
                w.nontrivial = True
                if any(len(after[k]) >= 3 and i in after[k][2:] for k in below):
                    ctx.count('rebasings_2plus_levels_above_a_descendant')
            tag = 'rebase %d -> %s' % (i, idx)
            if below and rng.random() < 0.6:
                # straight to a registry below the re-based one, nothing else asked in between
                check(tag, only=rng.choice(below))
        elif r < 0.62 and w.classes:
            # a declaration change on a class whose specification is a lookup key: the lookup objects are told by the
            # specification, not by a registry (and must still bring their registry's order up to date)
            c = rng.choice(w.classes)
            sel = rng.sample(w.R, rng.randint(1, min(2, len(w.R))))
            ctx.op('classImplements', c.__name__, nm(sel))
            (classImplements if rng.random() < 0.7 else classImplementsOnly)(c, *sel)
            kinds.append('declaration')
            ctx.count('declaration_changes_between_probes')
            tag = 'declaration on %s' % c.__name__
        elif r < 0.8:
            ri = rng.randrange(n)
            req, prov, name = w.rand_key(ar=rng.choice([0, 1, 1, 2]))
            w.register(ri, req, prov, name, w.newval())
            kinds.append('register')
            tag = 'register in %d' % ri
        elif r < 0.9:
            ri = rng.randrange(n)
            if not w.adapters[ri]:
                continue
            k = rng.choice(list(w.adapters[ri]))
            w.unregister(ri, *k)
            kinds.append('unregister')
            tag = 'unregister in %d' % ri
        else:
            ri = rng.randrange(n)
            req, prov, name = w.rand_key(ar=rng.choice([0, 1, 2]))
            w.subscribe(ri, req, rng.choice([prov, None]), w.newval())
            kinds.append('subscribe')
            tag = 'subscribe in %d' % ri
        # (not after every step: several changes may pile up before any registry is asked again)
        if rng.random() < 0.7:
            check(tag)
        else:
            ctx.count('steps_without_probes')
    check('final')
    _components_chain(ctx, rng, w)
    ctx.shape(('c06', w.flavour, tuple(kinds), tuple(tuple(w.index_of(b) for b in r.__bases__) for r in w.regs)),
              nontrivial=getattr(w, 'nontrivial', False))


def _components_chain(ctx, rng, w):
    """The same through Components.__bases__ (utilities and adapters registries)."""
    from zope.interface.registry import Components
    comps, mirror, mybases = [], [], []
    for i in range(rng.randint(2, 4)):
        idx = rng.sample(range(len(comps)), min(len(comps), rng.choice([0, 1, 1, 2])))
        try:
            pc = type('PC%d' % i, tuple(mirror[j] for j in idx) or (object,), {})
        except TypeError:
            idx = idx[:1]
            pc = type('PC%d' % i, tuple(mirror[j] for j in idx) or (object,), {})
        mirror.append(pc)
        bs = tuple(comps[j] for j in idx)
        mybases.append(list(bs))        # the harness's own record of the chain (not read back from the library)
        r_ = rng.random()
        if r_ < 0.15:
            bs = iter(bs)            # the constructor takes any iterable, also one that can be walked only once
            ctx.count('components_bases_given_as_one_shot_iterable')
        elif r_ < 0.3:
            bs = list(bs)
        comps.append(Components('c%d' % i, bs))
    P = w.P[0]
    RQ = w.R[0]
    utils, adaps = {}, {}

    class Adaptee:
        pass
    classImplements(Adaptee, RQ)
    adaptee = Adaptee()
    for i, c in enumerate(comps):
        if rng.random() < 0.8:
            u = object()
            utils[i] = u
            c.registerUtility(u, P, 'u', event=False)
        if rng.random() < 0.8:
            tag = ('adapter-of', i)
            adaps[i] = tag
            c.registerAdapter(lambda ob, tag=tag: tag, (RQ,), P, 'a', event=False)

    def expect(i, table=None):
        table = utils if table is None else table
        order = util.c3(comps[i], lambda c: mybases[[j for j, x in enumerate(comps) if x is c][0]])
        for c in order:
            k = [j for j, x in enumerate(comps) if x is c][0]
            if k in table:
                return table[k]
        return None

    for step in range(rng.randint(1, 4)):
        for i, c in enumerate(comps):
            ctx.ev()
            ctx.count('components_probes')
            got = c.queryUtility(P, 'u')
            if got is not expect(i):
                ctx.violation('components-chain-wrong', {'components': i, 'bases': [[comps.index(b) for b in x.__bases__] for x in comps]},
                              mechanism=None)
            # the adapter registries follow the same chain
            ctx.ev()
            got = c.queryAdapter(adaptee, P, 'a')
            if got != expect(i, adaps):
                ctx.violation('components-chain-wrong', {'components': i, 'what': 'adapters', 'got': repr(got), 'expected': repr(expect(i, adaps)),
                                                         'bases': [[comps.index(b) for b in x.__bases__] for x in comps]})
        i = rng.randrange(1, len(comps))
        idx = rng.sample(range(i), min(i, rng.choice([0, 1, 1, 2])))
        try:
            mirror[i].__bases__ = tuple(mirror[j] for j in idx) or (object,)
        except TypeError:
            continue
        ctx.op('components_bases', i, idx)
        comps[i].__bases__ = tuple(comps[j] for j in idx)
        mybases[i] = [comps[j] for j in idx]
        ctx.count('components_rebasings')
    for i, c in enumerate(comps):
        ctx.ev(2)
        if c.queryUtility(P, 'u') is not expect(i) or c.queryAdapter(adaptee, P, 'a') != expect(i, adaps):
            ctx.violation('components-chain-wrong', {'components': i, 'bases': [[comps.index(b) for b in x.__bases__] for x in comps]})


RUNNERS = {'C04': run_c04, 'C05': run_c05, 'C06': run_c06, 'C07': run_c07, 'C08': run_c08, 'C09': run_c09}



def run_case(ctx, rng, job):
    RUNNERS[job['prop']](ctx, rng, job)
    if ctx.case < 2:
        ctx.sample({'mode': ctx.mode, 'history': [list(map(str, r)) for r in ctx.log[:25]]})
