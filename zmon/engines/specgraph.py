"""Engine ``specgraph``: C02 (reachability after rebasing) and C03 (resolution
orders) over graphs of interfaces, plain declarations, class declarations and
instance declarations (DESIGN 3.2, 3.3)."""
import gc
import os
import warnings

from zope.interface import (
    Interface, classImplements, classImplementsFirst, classImplementsOnly,
    directlyProvides, implementedBy, providedBy, ro,
)
from zope.interface.declarations import Declaration, _empty
from zope.interface.interface import InterfaceClass, Specification

from zmon import util
from zmon.util import nm

IRO = ro.InconsistentResolutionOrderError
STRICT = os.environ.get('ZOPE_INTERFACE_STRICT_IRO') == '1'
LEGACY = os.environ.get('ZOPE_INTERFACE_USE_LEGACY_IRO') == '1'
WARN = os.environ.get('ZOPE_INTERFACE_WARN_BAD_IRO') == '1'
TRACK = os.environ.get('ZOPE_INTERFACE_TRACK_BAD_IRO') == '1'


def eff_bases(n):
    """Bases in the root-extended graph: nodes without bases extend the root."""
    if n is Interface:
        return ()
    return tuple(n.__bases__) or (Interface,)


class DependentFault(Exception):
    pass


class RaisingDependent:
    """Subscribed to a specification; raises the first time it is told about a change."""
    fired = False

    def changed(self, originally_changed):
        if not self.fired:
            self.fired = True
            raise DependentFault('dependent failed')


class SpecProxy:
    def __init__(self, spec):
        self._spec = spec

    def __hash__(self):
        return hash(self._spec)

    def __eq__(self, other):
        return other is self or self._spec == other

    def __ne__(self, other):
        return not self == other


class FalsyInterfaceClass(InterfaceClass):
    def __bool__(self):
        return False

    def __len__(self):
        return 0


class RehashedInterfaceClass(InterfaceClass):
    """A kind of interface with a hash of its own (derived from the inherited one, so equal interfaces of this kind still
    hash equal): whatever table an interface is looked up in has to go by this hash."""

    def __hash__(self):
        return InterfaceClass.__hash__(self) ^ 0x5a5a5a


class Node:
    __slots__ = ('kind', 'spec', 'name', 'cls', 'obj')

    def __init__(self, kind, spec, name, cls=None, obj=None):
        self.kind, self.spec, self.name, self.cls, self.obj = kind, spec, name, cls, obj


class Graph:
    def __init__(self, ctx, rng, tier):
        self.ctx, self.rng = ctx, rng
        self.nodes = []
        self.module = util.fresh_module()
        self.big = tier == 'thorough'
        self.dead = False           # history ended (state unspecified after a legitimate strict raise)
        self.serial = 0

    def newname(self, prefix):
        self.serial += 1
        return '%s%d' % (prefix, self.serial)

    # -- construction --------------------------------------------------------
    def lower(self, idx, kinds):
        return [n for n in self.nodes[:idx] if n.kind in kinds]

    def add_iface(self):
        rng = self.rng
        cands = self.lower(len(self.nodes), ('iface',))
        k = min(len(cands), rng.choice([0, 1, 1, 2, 2, 3]))
        bases = [n.spec for n in rng.sample(cands, k)]
        if bases and rng.random() < 0.08:
            bases.append(Interface)            # explicit root, last position only
        name = self.newname('I')
        spec = None
        try:
            if rng.random() < 0.1:
                # an interface that is false in a boolean context (a subclass adding __len__, say): still a member
                # of the hierarchy like any other
                spec = FalsyInterfaceClass(name, tuple(bases) or (Interface,), {}, __module__=self.module)
                self.ctx.count('falsy_interfaces')
            elif rng.random() < 0.1:
                spec = RehashedInterfaceClass(name, tuple(bases) or (Interface,), {}, __module__=self.module)
                self.ctx.count('interfaces_with_a_hash_of_their_own')
            else:
                spec = util.mkiface(name, bases, module=self.module)
        except IRO:
            pass
        if spec is None:    # (handled outside the except block so the exception, which references the object, is gone)
            self.ctx.count('strict_creation_raises')
            self.expect_inconsistent_new(bases, 'create-iface')
            return None
        if STRICT:
            self.expect_consistent_new(bases, 'create-iface')
        n = Node('iface', spec, name)
        self.nodes.append(n)
        self.ctx.op('iface', name, nm(bases))
        return n

    def expect_inconsistent_new(self, bases, what):
        """strict creation raised: legitimate iff the new node would have no C3."""
        # the half-built object stays subscribed to its bases until the
        # exception/traceback cycle is collected; collect it now so that it
        # cannot take part in later re-basings (it is not part of the graph)
        gc.collect()
        self.ctx.ev()
        if util.c3_of_bases(bases, eff_bases) is not None:
            self.ctx.violation('strict-raise-on-consistent', {'what': what, 'bases': nm(bases)})

    def expect_consistent_new(self, bases, what):
        self.ctx.ev()
        if util.c3_of_bases(bases, eff_bases) is None:
            self.ctx.violation('strict-no-raise-on-inconsistent', {'what': what, 'bases': nm(bases)})

    def add_twin(self):
        """An interface object equal (same name and module) to an existing one, but a
        different object.  Reachability is by identity, so specifications based on the
        original and on the twin must be kept apart.  To stay clear of the documented
        artefact (two *equal dependents* of one base collide in its weak ``dependents``
        dictionary) a twin is only ever based on the root or on a private pool that
        nothing else uses, and nothing but the swap operation below is based on it."""
        cands = [n for n in self.nodes if n.kind == 'iface' and not any(m.kind == 'twin' and m.name == n.name + '~' for m in self.nodes)]
        if not cands or STRICT:
            return None
        orig = self.rng.choice(cands)
        # (of the same kind as the original: equal objects have to hash equal)
        kind_ = RehashedInterfaceClass if isinstance(orig.spec, RehashedInterfaceClass) else InterfaceClass
        spec = kind_(orig.spec.__name__, (Interface,), {}, __module__=self.module)
        n = Node('twin', spec, orig.name + '~')
        n.obj = orig
        self.nodes.append(n)
        if not hasattr(self, 'twin_pool'):
            self.twin_pool = [util.mkiface(self.newname('TP'), module=self.module) for _ in range(2)]
        self.ctx.op('twin', n.name)
        self.ctx.count('twins')
        return n

    def twin_ops(self):
        """Swap a base for its equal twin (or back), or re-base a twin."""
        rng = self.rng
        twins = [n for n in self.nodes if n.kind == 'twin']
        if not twins:
            return False
        t = rng.choice(twins)
        orig = t.obj
        before = self.reach_sets()
        if rng.random() < 0.5:
            holders = [m for m in self.nodes if m.kind in ('iface', 'decl') and m is not orig and
                       any(b is orig.spec or b is t.spec for b in m.spec.__bases__)]
            # never let a specification that the original depends on depend on the twin (cycle by equality)
            holders = [m for m in holders if id(m.spec) not in util.reach(orig.spec, util.spec_bases)[0]]
            if not holders:
                return False
            m = rng.choice(holders)
            nb = tuple(t.spec if b is orig.spec else orig.spec if b is t.spec else b for b in m.spec.__bases__)
            self.ctx.op('swap-equal-base', m.name, [self.name_of(b) for b in nb])
            m.spec.__bases__ = nb
            idx = self.nodes.index(m)
        else:
            nb = tuple(rng.sample(self.twin_pool, rng.randint(0, 2))) or (Interface,)
            self.ctx.op('rebase-twin', t.name, [x.__name__ for x in nb])
            t.spec.__bases__ = nb
            idx = self.nodes.index(t)
        self.ctx.count('twin_mutations')
        self.after_mutation(idx, before, 'twin')
        return True

    def add_decl(self):
        rng = self.rng
        cands = self.lower(len(self.nodes), ('iface', 'decl', 'impl'))
        k = min(len(cands), rng.choice([0, 1, 2, 2, 3]))
        bases = tuple(n.spec for n in rng.sample(cands, k))
        name = self.newname('D')
        spec = Declaration()
        try:
            spec.__bases__ = bases
        except IRO:
            spec = None     # (every specification is in a cycle with its own __sro__)
        if spec is None:
            self.ctx.count('strict_creation_raises')
            self.expect_inconsistent_new(bases, 'create-decl')
            return None
        if STRICT:
            self.expect_consistent_new(bases, 'create-decl')
        n = Node('decl', spec, name)
        self.nodes.append(n)
        self.ctx.op('decl', name, [self.name_of(b) for b in bases])
        return n

    def add_class(self):
        rng = self.rng
        cands = [n for n in self.nodes if n.kind == 'impl']
        k = min(len(cands), rng.choice([0, 1, 1, 2]))
        bases = tuple(n.cls for n in rng.sample(cands, k))
        name = self.newname('K')
        try:
            cls = type(name, bases or (object,), {})
        except TypeError:
            return None
        cls.__module__ = self.module
        try:
            spec = implementedBy(cls)
        except IRO:
            self.ctx.count('strict_creation_raises')
            self.dead = True
            return None
        n = Node('impl', spec, name, cls=cls)
        self.nodes.append(n)
        self.ctx.op('class', name, [b.__name__ for b in bases])
        ifs = [x.spec for x in rng.sample(self.lower(len(self.nodes), ('iface',)),
                                          min(rng.randint(0, 3), len(self.lower(len(self.nodes), ('iface',)))))]
        if ifs:
            self.api_declare(n, 'ci', ifs)
        return n

    def add_instance(self):
        rng = self.rng
        impls = [n for n in self.nodes if n.kind == 'impl']
        if not impls:
            return None
        c = rng.choice(impls)
        ob = c.cls()
        ifs = [x.spec for x in rng.sample(self.lower(len(self.nodes), ('iface',)),
                                          min(rng.randint(1, 3), len(self.lower(len(self.nodes), ('iface',)))))]
        if not ifs:
            return None
        try:
            directlyProvides(ob, *ifs)
        except IRO:
            ob = None
        if ob is None:
            self.ctx.count('strict_creation_raises')
            gc.collect()
            return None
        name = self.newname('P')
        n = Node('prov', providedBy(ob), name, cls=c.cls, obj=ob)
        self.nodes.append(n)
        self.ctx.op('instance', name, c.name, nm(ifs))
        return n

    def name_of(self, spec):
        for n in self.nodes:
            if n.spec is spec:
                return n.name
        if spec is Interface:
            return 'Interface'
        return nm(spec)

    # -- oracles -------------------------------------------------------------
    def live_specs(self):
        return [n.spec for n in self.nodes]

    def reach_sets(self):
        return {id(n.spec): frozenset(util.reach(n.spec, util.spec_bases)[0]) for n in self.nodes}

    def all_consistent(self, memo=None):
        memo = {} if memo is None else memo
        return all(util.c3(n.spec, eff_bases, memo) is not None for n in self.nodes)

    # -- mutations -----------------------------------------------------------
    def api_declare(self, n, how, ifs):
        self.ctx.op('api', how, n.name, nm(ifs))
        try:
            if how == 'ci':
                classImplements(n.cls, *ifs)
            elif how == 'cio':
                classImplementsOnly(n.cls, *ifs)
            else:
                classImplementsFirst(n.cls, ifs[0])
        except IRO as e:
            self.strict_raise('api-' + how, n, e)
            return False
        return True

    def strict_raise(self, what, n, exc=None):
        """A mutation raised InconsistentResolutionOrderError (strict only)."""
        self.ctx.count('strict_rebase_raises')
        self.ctx.ev()
        if not STRICT:
            self.ctx.violation('iro-error-in-nonstrict', {'what': what, 'node': n.name})
        culprit = getattr(exc, 'C', None)
        in_graph = any(m.spec is culprit for m in self.nodes) or exc is None
        if self.all_consistent() and in_graph:
            # every node of the resulting graph has a C3 order, yet the
            # assignment raised: transient inconsistency while dependents
            # were recomputed in DFS order (DESIGN 3.3 (ii))
            self.ctx.count('strict_transient_raises')
            self.ctx.violation('strict-raise-on-consistent-result',
                               {'what': what, 'node': n.name, 'error_for': self.name_of(getattr(exc, 'C', None)),
                                'graph': {m.name: [self.name_of(b) for b in m.spec.__bases__] for m in self.nodes}},
                               mechanism='strict_transient_raise')
        elif self.all_consistent():
            self.ctx.violation('strict-raise-for-object-outside-graph', {'what': what, 'node': n.name,
                                                                          'culprit': repr(culprit)})
        self.dead = True

    def rebase(self):
        rng = self.rng
        cand = [i for i, n in enumerate(self.nodes) if i > 0 and n.kind != 'twin']
        if not cand:
            return False
        # prefer nodes that have dependents
        idx = rng.choice(cand)
        n = self.nodes[idx]
        before = self.reach_sets()
        if n.kind == 'iface':
            pool = self.lower(idx, ('iface',))
            k = min(len(pool), rng.choice([0, 1, 1, 2, 2, 3]))
            nb = tuple(x.spec for x in rng.sample(pool, k))
            if not nb and rng.random() < 0.8:
                nb = (Interface,)
            how = 'assign'
        elif n.kind == 'decl':
            pool = self.lower(idx, ('iface', 'decl', 'impl'))
            k = min(len(pool), rng.choice([0, 1, 2, 2, 3]))
            nb = tuple(x.spec for x in rng.sample(pool, k))
            if nb and not STRICT and rng.random() < 0.08:
                # the same base listed twice (what alsoProvides(ob, I) called twice produces): the base counts its
                # dependent twice and has to let go of it completely when the bases change again
                nb = nb + (nb[0],)
                self.ctx.count('assignments_with_a_base_listed_twice')
            how = 'assign'
        elif n.kind == 'impl':
            pool = self.lower(idx, ('iface',))
            ifs = [x.spec for x in rng.sample(pool, min(len(pool), rng.randint(0, 3)))]
            how = rng.choice(['ci', 'ci', 'cio', 'cif', 'assign'])
            if how == 'cif' and not ifs:
                how = 'ci'
            if how != 'assign':
                ok = self.api_declare(n, how, ifs)
                if ok:
                    self.after_mutation(idx, before, how)
                return ok
            inherited = tuple(b for b in n.spec.__bases__ if not isinstance(b, InterfaceClass))
            nb = tuple(ifs) + inherited
        else:  # prov: direct assignment keeping the class part last
            pool = self.lower(idx, ('iface',))
            ifs = [x.spec for x in rng.sample(pool, min(len(pool), rng.randint(0, 3)))]
            nb = tuple(ifs) + (implementedBy(n.cls),)
            how = 'assign'
        self.ctx.op('rebase', n.name, [self.name_of(b) for b in nb])
        if not STRICT and rng.random() < 0.12:
            # the assignment fails half-way: one of the specification's dependents raises from its changed().  The
            # specification itself has its new bases by then and must answer for them (what its other dependents say
            # is unspecified); repeating the assignment without the fault brings everybody up to date.
            dep = RaisingDependent()
            n.spec.subscribe(dep)
            try:
                n.spec.__bases__ = nb
                raised = False
            except DependentFault:
                raised = True
            n.spec.unsubscribe(dep)
            if raised:
                self.ctx.count('assignments_interrupted_by_a_raising_dependent')
                self.check_own(n.spec, nb)
            self.ctx.op('rebase-again', n.name)
        if not STRICT and rng.random() < 0.1:
            # a dependent reacts to the news by assigning the bases of the same specification once more (to what they are
            # going to be anyway): the assignment is made from inside the notification of an earlier, different one
            other = tuple(b for b in nb[1:]) if len(nb) > 1 and n.kind in ('iface', 'decl') else None
            if other is not None:
                target, final = n.spec, nb

                class Meddler:
                    armed = True

                    def changed(self_, originally_changed):
                        if self_.armed:
                            self_.armed = False
                            target.__bases__ = final
                med = Meddler()
                n.spec.subscribe(med)
                try:
                    n.spec.__bases__ = other          # the dependent turns this into ``final`` before it returns
                finally:
                    n.spec.unsubscribe(med)
                self.ctx.count('assignments_overtaken_by_a_nested_assignment')
                # the nested (later) assignment is the one that counts, for everybody
                self.check_own(n.spec, nb)
                self.ctx.ev()
                if [id(x) for x in n.spec.__iro__] != [id(x) for x in n.spec.__sro__ if isinstance(x, InterfaceClass)]:
                    self.ctx.violation('iro-is-not-the-interface-part-of-sro', {'spec': self.name_of(n.spec), 'after': 'nested assignment',
                                                                               'iro': [self.name_of(x) for x in n.spec.__iro__],
                                                                               'sro': [self.name_of(x) for x in n.spec.__sro__]})
                self.after_mutation(idx, before, how)
                return True
        if not STRICT and rng.random() < 0.1 and n.kind in ('iface', 'decl'):
            # one of the dependents reacts to the news by deriving something new from the very specification that is
            # changing (a new dependent appears while the others are being told): everybody is told all the same
            target = n.spec
            bred = []

            class Breeder:
                armed = True

                def changed(self_, originally_changed):
                    if self_.armed:
                        self_.armed = False
                        bred.append(Declaration(target))
                        if isinstance(target, InterfaceClass):
                            bred.append(InterfaceClass(self.newname('IBred'), (target,), {}, __module__=self.module))
            br = Breeder()
            n.spec.subscribe(br)
            try:
                n.spec.__bases__ = nb
            finally:
                n.spec.unsubscribe(br)
            self.ctx.count('assignments_during_which_a_new_dependent_appeared')
            for b_ in bred:
                self.ctx.ev()
                rs_, _rl = util.reach(b_, util.spec_bases)
                if self.conflated(b_, _rl):
                    continue          # (an ancestry holding two equal-keyed interfaces: one interface to the library, DESIGN 7.2)
                if {id(x) for x in b_.__sro__} != {id(b_)} | rs_ | {id(Interface)}:
                    self.ctx.violation('dependent-born-during-a-notification-is-stale', {'of': n.name, 'sro': [self.name_of(x) for x in b_.__sro__]})
            self.after_mutation(idx, before, how)
            return True
        try:
            n.spec.__bases__ = nb
        except IRO as e:
            self.strict_raise('rebase', n, e)
            return False
        self.after_mutation(idx, before, how)
        return True

    def check_own(self, S, nb):
        """After an interrupted assignment: S has the new bases and answers for them."""
        ctx = self.ctx
        ctx.ev()
        if tuple(S.__bases__) != tuple(nb):
            ctx.violation('interrupted-assignment-bases', {'spec': self.name_of(S)})
        rs, rl = util.reach(S, util.spec_bases)
        if self.conflated(S, rl):
            return
        sro_ids = {id(x) for x in S.__sro__}
        if sro_ids != {id(S)} | rs | {id(Interface)}:
            ctx.violation('interrupted-assignment-sro', {'spec': self.name_of(S), 'sro': [self.name_of(x) for x in S.__sro__],
                                                         'bases': [self.name_of(b) for b in nb]})
        for T in self.live_specs() + [Interface]:
            ctx.ev()
            same = T is S or (isinstance(T, InterfaceClass) and isinstance(S, InterfaceClass) and T == S)
            exp = same or id(T) in rs or T is Interface or \
                (isinstance(T, InterfaceClass) and any(isinstance(x, InterfaceClass) and x == T for x in rl))
            if bool(S.isOrExtends(T)) != exp:
                ctx.violation('interrupted-assignment-extends', {'S': self.name_of(S), 'T': self.name_of(T), 'expected': exp,
                                                                 'bases': [self.name_of(b) for b in nb]})

    def after_mutation(self, idx, before, how):
        after = self.reach_sets()
        changed = [i for i, n in enumerate(self.nodes) if before[id(n.spec)] != after[id(n.spec)]]
        self.ctx.count('rebasings')
        if any(i != idx for i in changed):
            self.ctx.count('rebasings_changing_indirect_dependent')
            self.nontrivial = True

    nontrivial = False

    def drop_leaf(self):
        """Forget a specification nothing else is based on; collect it."""
        used = set()
        for n in self.nodes:
            for b in n.spec.__bases__:
                used.add(id(b))
            # a class specification also keeps what was declared through the API alive
            for b in getattr(n.spec, 'declared', ()):
                used.add(id(b))
        leaves = [i for i, n in enumerate(self.nodes) if id(n.spec) not in used and n.kind in ('iface', 'decl') and i > 0]
        if not leaves:
            return
        i = self.rng.choice(leaves)
        n = self.nodes.pop(i)
        wr = n.spec.weakref()
        kind, name, cls, obj = n.kind, n.name, n.cls, n.obj
        del n
        gc.collect()
        survivor = wr()
        if survivor is not None:
            # something outside ``__bases__`` still refers to it (e.g. the constructor arguments a
            # provides-declaration keeps for pickling): it is still a live dependent, keep it in the graph
            self.nodes.insert(i, Node(kind, survivor, name, cls, obj))
            self.ctx.count('drops_refused_still_referenced')
            return
        self.ctx.op('drop', name)
        self.ctx.count('dependents_collected')

    # -- monitors ------------------------------------------------------------
    def check_reach(self):
        ctx = self.ctx
        specs = self.live_specs()
        foreign = getattr(self, '_foreign', None)
        if foreign is None:
            foreign = self._foreign = util.mkiface('Foreign')
        extra = [Interface, _empty, foreign]
        for S in specs + [_empty, Interface]:
            rs, rl = util.reach(S, util.spec_bases)
            if self.conflated(S, rl):
                self.ctx.count('conflated_ancestries_skipped')
                continue
            want = {id(S)} | rs | {id(Interface)}
            sro = S.__sro__
            ctx.ev()
            if {id(x) for x in sro} != want or len(sro) != len(want):
                ctx.violation('sro-set', {'spec': self.name_of(S), 'sro': [self.name_of(x) for x in sro],
                                          'reach': sorted(self.name_of(x) for x in rl)})
            iro = S.__iro__
            filt = [x for x in sro if isinstance(x, InterfaceClass)]
            ctx.ev()
            if len(iro) != len(filt) or not all(a is b for a, b in zip(iro, filt)):
                ctx.violation('iro-not-filtered-sro', {'spec': self.name_of(S), 'iro': nm(iro), 'sro': [self.name_of(x) for x in sro]})
            anc = [S] + rl
            for T in specs + extra:
                # "is" / "reachable" are modulo interface equality: an equal twin (same name and
                # module) *is* that interface as far as the library is concerned (C12); with the
                # unique names used everywhere else this is plain identity
                same = T is S or (isinstance(T, InterfaceClass) and isinstance(S, InterfaceClass) and T == S)
                reachable = id(T) in rs or T is Interface or \
                    (isinstance(T, InterfaceClass) and any(isinstance(x, InterfaceClass) and x == T for x in rl))
                exp_ioe = same or reachable
                exp_ext = reachable and not same
                exp_ext0 = exp_ioe
                ctx.ev(3)
                ctx.count('pair_checks')
                g1, g2, g3 = bool(S.isOrExtends(T)), bool(S.extends(T)), bool(S.extends(T, False))
                if S is _empty and T is _empty:
                    g3 = exp_ext0   # the shared empty declaration documents its own extends()
                if (g1, g2, g3) != (exp_ioe, exp_ext, exp_ext0):
                    ctx.violation('extends', {'S': self.name_of(S), 'T': self.name_of(T),
                                              'isOrExtends': g1, 'extends': g2, 'extends_nonstrict': g3,
                                              'expected': [exp_ioe, exp_ext, exp_ext0]})
                if (id(S) + id(T)) % 11 == 0:
                    # T reached through a transparent proxy (an object that hashes and compares like T): same answer
                    ctx.ev()
                    ctx.count('isOrExtends_through_a_transparent_proxy')
                    if bool(S.isOrExtends(SpecProxy(T))) != exp_ioe:
                        ctx.violation('extends-through-proxy', {'S': self.name_of(S), 'T': self.name_of(T), 'expected': exp_ioe})
        # providedBy / implementedBy forms agree for declaration nodes
        for n in self.nodes:
            if n.kind == 'prov':
                spec = providedBy(n.obj)
                rs, rl_ = util.reach(spec, util.spec_bases)
                for m in self.nodes:
                    if m.kind == 'iface':
                        ctx.ev()
                        exp = id(m.spec) in rs or any(isinstance(x, InterfaceClass) and x == m.spec for x in rl_)
                        if bool(m.spec.providedBy(n.obj)) != exp:
                            ctx.violation('providedBy-vs-reach', {'obj': n.name, 'iface': m.name, 'expected': exp})
                    elif m.kind in ('decl', 'impl', 'prov'):
                        # any specification can be asked, not only interfaces: true iff it is the object's own
                        # specification or reachable from it
                        ctx.ev()
                        ctx.count('providedBy_asked_of_non_interface_specifications')
                        exp = m.spec is spec or id(m.spec) in rs
                        if bool(m.spec.providedBy(n.obj)) != exp:
                            ctx.violation('providedBy-vs-reach', {'obj': n.name, 'specification': m.name, 'expected': exp})
            elif n.kind == 'impl':
                rs, rl_ = util.reach(n.spec, util.spec_bases)
                for m in self.nodes:
                    if m.kind == 'iface':
                        ctx.ev()
                        exp = id(m.spec) in rs or any(isinstance(x, InterfaceClass) and x == m.spec for x in rl_)
                        if bool(m.spec.implementedBy(n.cls)) != exp:
                            ctx.violation('implementedBy-vs-reach', {'cls': n.name, 'iface': m.name, 'expected': exp})
                    elif m.kind in ('decl', 'impl'):
                        ctx.ev()
                        exp = m.spec is n.spec or id(m.spec) in rs
                        if bool(m.spec.implementedBy(n.cls)) != exp:
                            ctx.violation('implementedBy-vs-reach', {'cls': n.name, 'specification': m.name, 'expected': exp})

    @staticmethod
    def conflated(S, rl):
        """An ancestry holding two distinct but equal interfaces: the library treats them as
        one interface (equality-keyed tables), so identity-based expectations do not apply."""
        keys = {}
        for x in [S] + rl:
            if isinstance(x, InterfaceClass):
                k = (x.__name__, x.__module__)
                if k in keys and keys[k] is not x:
                    return True
                keys[k] = x
        return False

    def check_twin(self):
        """Rebuild the whole graph from nothing with new objects of the same
        shape; every node's __sro__ must equal its twin's element for element."""
        if STRICT or LEGACY:
            return
        ctx = self.ctx
        order, seen = [], set()

        def visit(s):
            if id(s) in seen or s is Interface:
                return
            seen.add(id(s))
            for b in s.__bases__:
                visit(b)
            order.append(s)
        for s in self.live_specs():
            visit(s)
        twin = {id(Interface): Interface}
        back = {id(Interface): Interface}
        mod = util.fresh_module()
        for k, s in enumerate(order):
            tb = tuple(twin[id(b)] for b in s.__bases__)
            if isinstance(s, InterfaceClass) and all(isinstance(b, InterfaceClass) for b in tb):
                if tb:
                    t = InterfaceClass('T%d' % k, tb, {}, __module__=mod)
                else:
                    t = InterfaceClass('T%d' % k, (Interface,), {}, __module__=mod)
                    t.__bases__ = ()
            else:
                t = Specification(tb)
            twin[id(s)] = t
            back[id(t)] = s
        for s in order:
            t = twin[id(s)]
            if self.conflated(s, util.reach(s, util.spec_bases)[1]):
                continue
            got = list(s.__sro__)
            exp = [back[id(x)] for x in t.__sro__]
            ctx.ev()
            ctx.count('twin_comparisons')
            if len(got) != len(exp) or not all(a is b for a, b in zip(got, exp)):
                ctx.violation('twin-sro-differs', {'spec': self.name_of(s), 'sro': [self.name_of(x) for x in got],
                                                   'fresh_twin_sro': [self.name_of(x) for x in exp]})

    def check_orders(self):
        """C03: validity of every order; equality with C3 when it exists;
        strict / is_consistent verdicts."""
        ctx = self.ctx
        memo, mmemo, rawmemo = {}, {}, {}
        targets = [(n.name, n.spec) for n in self.nodes]
        if not STRICT:
            # the specifications the library synthesizes around the graph are specifications with resolution orders too:
            # what a class itself provides (ClassProvides) and what the rest of an MRO implements (super proxies)
            from zope.interface.declarations import ClassProvides
            for n in self.nodes:
                if n.kind == 'impl' and n.cls is not None:
                    cp = providedBy(n.cls)
                    if isinstance(cp, ClassProvides):
                        targets.append(('provides-of-class-' + n.name, cp))
                        ctx.count('synthesized_specifications_checked[ClassProvides]')
                elif n.kind == 'prov' and n.obj is not None:
                    for C in type(n.obj).__mro__[:-1]:
                        targets.append(('super(%s)-of-%s' % (C.__name__, n.name), providedBy(super(C, n.obj))))
                        ctx.count('synthesized_specifications_checked[super]')
        for name_, S in targets:
            if any(len(set(map(id, x.__bases__))) != len(x.__bases__) for x in [S] + list(util.reach(S, util.spec_bases)[1])):
                # a base listed twice somewhere in the ancestry: CPython's type() refuses such bases, the two oracles
                # cannot both speak (C02's reachability oracle covers these nodes)
                ctx.count('nodes_skipped_base_listed_twice')
                continue
            if self.conflated(S, util.reach(S, util.spec_bases)[1]):
                # an ancestry holding two equal-keyed interfaces: the library treats them as one (DESIGN 7.2)
                ctx.count('nodes_skipped_conflated_twins')
                continue
            sro = list(S.__sro__)
            ctx.ev()
            ctx.count('nodes_checked')
            # (a) validity
            ids = [id(x) for x in sro]
            bad = None
            if not sro or sro[0] is not S:
                bad = 'does not start with self'
            elif len(set(ids)) != len(ids):
                bad = 'duplicates'
            elif sro[-1] is not Interface:
                bad = 'does not end with Interface'
            else:
                pos = {i: k for k, i in enumerate(ids)}
                rs, rl = util.reach(S, util.spec_bases)
                if set(ids) != {id(S)} | rs | {id(Interface)}:
                    bad = 'not exactly the ancestors'
                else:
                    for x in sro:
                        for b in util.spec_bases(x):
                            if pos[id(b)] < pos[id(x)]:
                                bad = '%s placed after its base %s' % (self.name_of(x), self.name_of(b))
            if bad:
                ctx.violation('invalid-linearization', {'spec': name_, 'why': bad, 'sro': [self.name_of(x) for x in sro]})
            iro = list(S.__iro__)
            filt = [x for x in sro if isinstance(x, InterfaceClass)]
            if len(iro) != len(filt) or not all(a is b for a, b in zip(iro, filt)):
                ctx.violation('iro-not-filtered-sro', {'spec': name_})
            # (b) C3 equality; two independent oracles must agree first
            exp = util.c3(S, eff_bases, memo)
            exp2 = util.mirror_mro(S, eff_bases, Interface, mmemo)
            if (exp is None) != (exp2 is None) or (exp is not None and [id(x) for x in exp] != [id(x) for x in exp2]):
                ctx.count('oracle_disagreements')
                continue
            ctx.count('oracle_agreements')
            multi = len(S.__bases__) >= 2
            if exp is None:
                ctx.count('inconsistent_nodes')
            else:
                ctx.count('consistent_nodes')
                if not LEGACY:
                    ctx.ev()
                    if [id(x) for x in sro] != [id(x) for x in exp]:
                        ctx.violation('sro-not-c3', {'spec': name_, 'sro': [self.name_of(x) for x in sro],
                                                     'c3': [self.name_of(x) for x in exp]})
                    pre = [S] + [x for x in util.reach(S, eff_bases)[1]]
                    if multi and [id(x) for x in exp] != [id(x) for x in dfs_pre(S)]:
                        ctx.count('c3_differs_from_dfs')
            if STRICT and exp is None:
                ctx.violation('strict-graph-has-inconsistent-node', {'spec': name_})
            # (c) explicit ro.ro / is_consistent on the raw graph
            raw = util.c3(S, util.spec_bases, rawmemo)
            ctx.ev()
            if (raw is None) != (exp is None):
                ctx.count('raw_vs_extended_disagree')
            else:
                try:
                    got = ro.ro(S, strict=True)
                    raised = False
                except IRO:
                    raised = True
                if raised != (raw is None):
                    ctx.violation('strict-ro-verdict', {'spec': name_, 'raised': raised, 'c3_exists': raw is not None})
                if not raised and not LEGACY and [id(x) for x in got] != [id(x) for x in raw]:
                    ctx.violation('strict-ro-not-c3', {'spec': name_, 'ro': [self.name_of(x) for x in got]})
                ctx.ev()
                cons = bool(ro.is_consistent(S))
                if cons != (raw is not None):
                    direct = raw is None and all(util.c3(b, util.spec_bases, rawmemo) is not None for b in S.__bases__)
                    ctx.violation('is_consistent-verdict', {'spec': name_, 'is_consistent': cons,
                                                            'c3_exists': raw is not None,
                                                            'bases': [self.name_of(b) for b in S.__bases__]},
                                  mechanism='is_consistent_skips_own_merge' if (cons and direct) else None)
                with warnings.catch_warnings(record=True) as caught:
                    warnings.simplefilter('always')
                    loose = ro.ro(S, strict=False, use_legacy_ro=False)
                if WARN:
                    # the warning configuration: a warning is issued exactly when some merge on the way had no C3 order
                    warned = any(issubclass(w_.category, ro.InconsistentResolutionOrderWarning) for w_ in caught)
                    ctx.ev()
                    ctx.count('warning_verdicts')
                    if warned != (raw is None):
                        ctx.violation('inconsistency-warning-verdict', {'spec': name_, 'warned': warned, 'c3_exists': raw is not None})
                if TRACK and raw is None:
                    # the tracking configuration keeps the offending specifications for inspection
                    ctx.ev()
                    ctx.count('tracking_verdicts')
                    anc = [S] + list(util.reach(S, util.spec_bases)[1])
                    if not any(x in ro.C3.BAD_IROS for x in anc):
                        ctx.violation('inconsistent-specification-not-tracked', {'spec': name_})
                ctx.ev()
                if raw is not None and [id(x) for x in loose] != [id(x) for x in raw]:
                    ctx.violation('ro-not-c3', {'spec': name_, 'ro': [self.name_of(x) for x in loose]})
                if raw is None:
                    ctx.count('legacy_fallback_orders')


def dfs_pre(S):
    out, seen = [], set()

    def v(x):
        if id(x) in seen:
            return
        seen.add(id(x))
        out.append(x)
        for b in eff_bases(x):
            v(b)
    v(S)
    # root last, as the implementation forces
    out = [x for x in out if x is not Interface] + [Interface]
    return out


def run_case(ctx, rng, job):
    g = Graph(ctx, rng, job['tier'])
    prop = job['prop']
    big = g.big
    n = rng.randint(4, 14 if big else 9)
    g.add_iface()
    for _ in range(n):
        if g.dead:
            break
        r = rng.random()
        if r < 0.55:
            g.add_iface()
        elif r < 0.7:
            g.add_decl()
        elif r < 0.9:
            g.add_class()
        else:
            g.add_instance()
    if (prop == 'C02' and rng.random() < 0.35) or (prop == 'C03' and not LEGACY and rng.random() < 0.2):
        g.add_twin()
    check_all = (lambda: (g.check_reach(), g.check_twin())) if prop == 'C02' else g.check_orders
    # "interleaved with queries": besides histories queried after every mutation, histories queried only now and
    # then or only at the end (several re-basings hit specifications nobody has asked anything in between)
    check_p = rng.choice([1.0, 1.0, 0.3, 0.0])
    pending = [False]

    def check():
        if check_p >= 1.0 or rng.random() < check_p:
            pending[0] = False
            ctx.count('check_points[%s]' % ('every-step' if check_p >= 1.0 else 'sparse'))
            check_all()
        else:
            pending[0] = True
    if not g.dead:
        check()
    steps = rng.randint(1, 12 if big else 6)
    done = 0
    for _ in range(steps):
        if g.dead or len(g.nodes) < 2:
            break
        r = rng.random()
        if any(m.kind == 'twin' for m in g.nodes) and rng.random() < 0.5:
            if g.twin_ops():
                done += 1
                check()
            continue
        if not STRICT and rng.random() < 0.15:
            # (not in the strict configuration: the synthesised specification is a member of the specification graph
            #  that the harness does not model, and a later declaration may legitimately raise because *it* has no C3
            #  order)
            # a super() query: it leaves a per-class cache of synthesised specifications on the class
            # declarations involved; re-basing above them afterwards must still reach everything
            impls = [m for m in g.nodes if m.kind in ('impl', 'prov') and len(m.cls.__mro__) > 2]
            if impls:
                m = rng.choice(impls)
                ob = m.obj if m.kind == 'prov' else m.cls()
                k = rng.choice(m.cls.__mro__[:-1])
                try:
                    list(providedBy(super(k, ob)).flattened())
                    list(implementedBy(super(k, ob)).flattened())
                except IRO:
                    # strict configuration: the synthesised specification may have no C3 order
                    ctx.count('super_query_strict_raises')
                ctx.op('super-query', m.name, k.__name__)
                ctx.count('super_queries_between_rebasings')
        if r < 0.12:
            g.drop_leaf()
        elif r < 0.2:
            g.add_iface()
        else:
            if g.rebase():
                done += 1
        if g.dead:
            break
        check()
    if pending[0] and not g.dead:
        ctx.count('check_points[deferred-to-end]')
        check_all()
    shape = tuple((m.kind, tuple(sorted(g.name_of(b) for b in m.spec.__bases__))) for m in g.nodes)
    if prop == 'C02':
        ctx.shape(shape, nontrivial=g.nontrivial)
    else:
        memo = {}
        nt = any(len(m.spec.__bases__) >= 2 for m in g.nodes)
        ctx.shape(shape, nontrivial=nt)
    ctx.count('graphs')
    if ctx.case < 2:
        ctx.sample({'mode': ctx.mode, 'cfg': job.get('cfgname', ''),
                    'history': [list(map(str, r)) for r in ctx.log[:30]]})
