"""Engine ``decl``: C01 (declarations) and C19 (super proxies).

History + executable reference model with must/may bounds (DESIGN 3.1, 3.19).
After every step every live class, instance and (C19) super proxy is queried
through all query forms and compared with the model.
"""
import gc

from zope.interface import (
    Interface, alsoProvides, classImplements, classImplementsFirst,
    classImplementsOnly, directlyProvidedBy, directlyProvides, implementedBy,
    implementer, implementer_only, noLongerProvides, providedBy, provider,
)
from zope.interface.adapter import AdapterRegistry

from zope.interface.interface import InterfaceClass

from zmon import util
from zmon.util import nm


class DependentFault(Exception):
    pass


class RaisingDependent:
    fired = False

    def changed(self, originally_changed):
        if not self.fired:
            self.fired = True
            raise DependentFault('dependent failed')


class World:
    def __init__(self, ctx, rng, tier):
        self.ctx, self.rng = ctx, rng
        big = tier == 'thorough'
        n = rng.randint(3, 10 if big else 7)
        self.ifaces = util.gen_iface_dag(rng, n, consistent_only=False)
        self.classes = []
        self.objs = []
        self.M = {}      # id(target) -> must list
        self.Y = {}      # id(target) -> may list
        self.only = {}   # class -> bool
        self.cprov = {}  # class -> (must, may) class-level provides
        self.narrowed = False
        self.mutated_after_dependents = False
        self.fac = {}    # id(obj) -> interfaces the (callable) object *implements as a factory*
        self.declare_on_object = rng.random() < 0.12
        self.object_touched = False

    # -- model ---------------------------------------------------------------
    def closure(self, ifs):
        """Interfaces implied by the listed declarations.  An element may also be a class's implementation
        specification (declared as a whole: it keeps following that class's declarations)."""
        s = {Interface}
        for i in ifs:
            if isinstance(i, InterfaceClass):
                s.add(i)
            s.update(x for x in util.reach(i, util.spec_bases)[1] if isinstance(x, InterfaceClass))
        return s

    def _reaches(self, spec, cls):
        """Does the class specification *spec* (transitively, through specifications declared on classes) lead to
        the specification of *cls*?  Used to keep generated class declarations acyclic."""
        target = implementedBy(cls)
        return spec is target or id(target) in util.reach(spec, util.spec_bases)[0]

    @staticmethod
    def flat(lst):
        """What ``directlyProvidedBy(ob) - I`` keeps of a declared class specification: its interfaces, one by one
        (``Declaration.__sub__`` works on ``interfaces()``)."""
        out = []
        for p in lst:
            if isinstance(p, InterfaceClass):
                out.append(p)
            else:
                out.extend(p.interfaces())
        return out

    def cbound(self, c, which, memo=None):
        if c is object:
            # (declared on in a share of the histories; undone at the end of the case)
            return self.closure((self.M if which == 'L' else self.Y).get(id(object), []))
        d = (self.M if which == 'L' else self.Y).get(id(c), [])
        s = self.closure(d)
        if not self.only.get(c, False):
            for b in c.__bases__:
                s |= self.cbound(b, which)
        return s

    def obound(self, o, which):
        d = (self.M if which == 'L' else self.Y).get(id(o), [])
        return self.closure(d) | self.cbound(type(o), which)

    def actual_c(self, c):
        return set(implementedBy(c).flattened()) | {Interface}

    def actual_o(self, o):
        return set(providedBy(o).flattened()) | {Interface}

    def declare_cls(self, c, ifs, reset=False):
        if reset:
            self.M[id(c)] = []
            self.Y[id(c)] = []
            self.only[c] = True
            self.narrowed = True
        L = self.cbound(c, 'L')
        U = self.cbound(c, 'U')
        amb = [i for i in ifs if i in U and i not in L]
        act = self.actual_c(c) if amb else None
        cspec = implementedBy(c) if any(not isinstance(i, InterfaceClass) for i in ifs) else None
        for i in ifs:
            self.Y.setdefault(id(c), []).append(i)
            if not isinstance(i, InterfaceClass):
                # a class specification as a whole: redundant iff the class's specification already reaches it
                # (read from the specification graph, which the bounds checks of the classes keep validated)
                if not reset and (i is cspec or id(i) in util.reach(cspec, util.spec_bases)[0]):
                    continue
                self.M.setdefault(id(c), []).append(i)
                L = L | self.closure([i])
                continue
            if i in L:
                continue
            if i not in U or i not in act:
                self.M.setdefault(id(c), []).append(i)
                L = L | self.closure([i])
        if any(type(o) is not c and isinstance(o, c) for o in self.objs) or \
                any(k is not c and issubclass(k, c) for k in self.classes):
            self.mutated_after_dependents = True

    def declare_obj(self, o, ifs, keepM=(), keepY=()):
        c = type(o)
        L = self.cbound(c, 'L')
        U = self.cbound(c, 'U')
        cand = list(keepM) + list(ifs)
        amb = [i for i in cand if i in U and i not in L]
        act = self.actual_c(c) if amb else None
        M = []
        cspec = implementedBy(c) if any(not isinstance(i, InterfaceClass) for i in cand) else None
        for i in cand:
            if not isinstance(i, InterfaceClass):
                if i is cspec or id(i) in util.reach(cspec, util.spec_bases)[0]:
                    continue        # the class's own specification reaches it: stripped as redundant
                M.append(i)
                continue
            if i in L:
                continue
            if i not in U or i not in act:
                M.append(i)
        self.M[id(o)] = M
        self.Y[id(o)] = list(keepY) + list(ifs)

    # -- monitor ---------------------------------------------------------------
    def names(self, s):
        return sorted(nm(x) for x in s)

    def check(self):
        # the order of the questions varies: an object may be asked what it provides before anybody has asked its (new,
        # undeclared) class for its specification, a class may be asked providedBy() before implementedBy(), ...
        r = self.rng.random()
        if r < 0.5:
            self._check_classes()
            self._check_objs()
        else:
            self.ctx.count('checks_asking_objects_before_classes')
            self._check_objs()
            self._check_classes()

    def _check_classes(self):
        ctx = self.ctx
        order = list(self.classes)
        if self.rng.random() < 0.5:
            self.rng.shuffle(order)
        for c in order:
            if self.rng.random() < 0.3:
                providedBy(c)
            a = self.actual_c(c)
            L = self.cbound(c, 'L')
            U = self.cbound(c, 'U')
            ctx.ev()
            if not (L <= a <= U):
                ctx.violation('class-bounds', {'cls': c.__name__, 'missing': self.names(L - a),
                                               'extra': self.names(a - U)},
                              mechanism=None)
            for i in self.ifaces:
                ctx.ev()
                if bool(i.implementedBy(c)) != (i in a):
                    ctx.violation('implementedBy-disagree', {'cls': c.__name__, 'iface': nm(i)})
            # class-level provides must not leak to/from instances
            pm, py = self.cprov.get(c, ([], []))
            pa = set(providedBy(c).flattened()) | {Interface}
            tb = self.closure([]) | set(implementedBy(type(c)).flattened())
            ctx.ev()
            if not ((self.closure(pm) | tb) <= pa <= (self.closure(py) | tb)):
                ctx.violation('class-provides-bounds', {'cls': c.__name__,
                                                        'got': self.names(pa), 'must': self.names(self.closure(pm)),
                                                        'may': self.names(self.closure(py))})

    def _check_objs(self):
        ctx = self.ctx
        order = list(self.objs)
        if self.rng.random() < 0.5:
            self.rng.shuffle(order)
        for o in order:
            if self.rng.random() < 0.3 and self.ifaces:
                self.ifaces[0].providedBy(o)
            a = self.actual_o(o)
            L = self.obound(o, 'L')
            U = self.obound(o, 'U')
            ctx.ev()
            if not (L <= a <= U):
                mech = None
                ctx.violation('object-bounds', {'obj': o.zname, 'cls': type(o).__name__,
                                                'missing': self.names(L - a), 'extra': self.names(a - U)},
                              mechanism=mech)
            for i in self.ifaces:
                ctx.ev()
                if bool(i.providedBy(o)) != (i in a):
                    ctx.violation('providedBy-disagree', {'obj': o.zname, 'iface': nm(i)})
            # closure level only: a directly declared interface that is implied by
            # another directly declared one may legitimately be folded away
            if id(o) in self.fac:
                ctx.ev()
                f = set(implementedBy(o).flattened()) | {Interface}
                if f != self.closure(self.fac[id(o)]):
                    ctx.violation('factory-declaration', {'obj': o.zname, 'got': self.names(f),
                                                          'expected': self.names(self.closure(self.fac[id(o)]))})
            d = self.closure(directlyProvidedBy(o))
            ctx.ev()
            if not (self.closure(self.M.get(id(o), [])) <= d <= self.closure(self.Y.get(id(o), []))):
                ctx.violation('directlyProvidedBy-bounds', {'obj': o.zname, 'got': self.names(d),
                                                            'must': self.names(self.M.get(id(o), [])),
                                                            'may': self.names(self.Y.get(id(o), []))})

    # -- C19 monitor -----------------------------------------------------------
    def check_super(self, registry=None, facs=None, calls=None):
        ctx = self.ctx
        for o in self.objs:
            mro = type(o).__mro__
            for ix, C in enumerate(mro):
                # (the last class of the MRO too: ``super(object, ob)`` is legal, nothing is left, nothing is provided)
                tail = mro[ix + 1:]
                if not tail:
                    ctx.count('super_queries_with_nothing_left_of_the_mro')
                s = super(C, o)
                L, U = {Interface}, {Interface}
                for k in tail:
                    L |= self.cbound(k, 'L')
                    U |= self.cbound(k, 'U')
                for fn, label in ((providedBy, 'providedBy'), (implementedBy, 'implementedBy')):
                    a = set(fn(s).flattened()) | {Interface}
                    ctx.ev()
                    ctx.count('super_queries')
                    if not (L <= a <= U):
                        ctx.violation('super-bounds', {'fn': label, 'obj': o.zname, 'cls': type(o).__name__,
                                                       'thisclass': C.__name__, 'missing': self.names(L - a),
                                                       'extra': self.names(a - U)})
                for i in self.ifaces:
                    ctx.ev()
                    if bool(i.providedBy(s)) != (i in a):
                        ctx.violation('super-providedBy-disagree', {'obj': o.zname, 'thisclass': C.__name__, 'iface': nm(i)})
                # the order in which the rest of the MRO is seen: nearest class first, i.e. the C3 merge over the
                # specifications of the remaining classes in MRO order (computed by the harness, not read back)
                own = util.c3_of_bases([implementedBy(k) for k in tail])
                spec = providedBy(s)
                if own is not None:
                    want = [x for x in own[1:] if isinstance(x, InterfaceClass) and x is not Interface]
                    have = [x for x in spec.__iro__ if x is not Interface]
                    ctx.ev()
                    ctx.count('super_resolution_orders_compared')
                    if len(want) != len(have) or any(a is not b for a, b in zip(want, have)):
                        ctx.violation('super-resolution-order', {'obj': o.zname, 'thisclass': C.__name__,
                                                                 'got': util.nm(have), 'expected': util.nm(want)})
                if registry is not None:
                    exp = None
                    for x in (own[1:] if own is not None else spec.__sro__):
                        if x in facs:
                            exp = facs[x]
                            break
                    del calls[:]
                    got = registry.queryAdapter(s, self.target, '', None)
                    ctx.ev()
                    ctx.count('super_adaptations')
                    if exp is None:
                        if got is not None or calls:
                            ctx.violation('super-adapt-unexpected', {'obj': o.zname, 'thisclass': C.__name__, 'got': str(got)})
                    else:
                        ctx.count('super_adaptations_hit')
                        if not (len(calls) == 1 and calls[0][0] is exp and calls[0][1] is o and got == (exp.tag, id(o))):
                            ctx.violation('super-adapt-wrong', {'obj': o.zname, 'thisclass': C.__name__,
                                                                'expected_factory': exp.tag,
                                                                'calls': [(c[0].tag, type(c[1]).__name__) for c in calls]})
                    # the same through the multi-adapter entry point with a single object
                    del calls[:]
                    got = registry.queryMultiAdapter((s,), self.target, '', None)
                    ctx.ev()
                    if exp is None:
                        if got is not None or calls:
                            ctx.violation('super-multiadapt-unexpected', {'obj': o.zname, 'thisclass': C.__name__, 'got': str(got)})
                    elif not (len(calls) == 1 and calls[0][0] is exp and calls[0][1] is o and got == (exp.tag, id(o))):
                        ctx.violation('super-multiadapt-wrong', {'obj': o.zname, 'thisclass': C.__name__, 'expected_factory': exp.tag,
                                                                 'calls': [(c[0].tag, type(c[1]).__name__) for c in calls]})
                    if len(tail) >= 3:
                        ctx.count('super_tail_ge2')

    # -- steps -----------------------------------------------------------------
    def pick(self, lo=0, hi=3):
        r = self.rng
        return r.sample(self.ifaces, r.randint(lo, min(hi, len(self.ifaces))))

    def step(self):
        rng, ctx = self.rng, self.ctx
        ops = ['newcls', 'newcls', 'newobj', 'newobj', 'ci', 'ci', 'cio', 'cif', 'dp', 'dp', 'dp',
               'ap', 'ap', 'nlp', 'deco', 'decoonly', 'provider', 'gc', 'factory']
        op = rng.choice(ops)
        if self.declare_on_object and self.classes and rng.random() < 0.08:
            # a declaration on ``object`` itself: legal, inherited by every class that does not cut inheritance off
            ifs = self.pick(1, 2)
            self.declare_cls(object, ifs)
            ctx.op('ci', 'object', nm(ifs))
            ctx.count('declarations_on_object')
            classImplements(object, *ifs)
            self.object_touched = True
            return
        if op == 'newcls' or not self.classes:
            k = rng.choice([0, 1, 1, 2, 2, 3])
            bases = tuple(rng.sample(self.classes, min(k, len(self.classes))))
            ns = {'__call__': lambda self_: None}
            if not bases and rng.random() < 0.2:
                # instances without a __dict__: the instance declaration lives in a slot
                ns['__slots__'] = ('__provides__', 'zname', '__weakref__')
                ctx.count('classes_with_a_provides_slot')
            builtin_base = None
            if rng.random() < 0.12 and not any(issubclass(b, (list, dict, int)) for b in bases) and '__slots__' not in ns:
                # a class built on a built-in type (its specification hangs off the built-in's, which lives in a side
                # table because the type itself cannot carry attributes)
                builtin_base = rng.choice([list, dict, int])
                bases = bases + (builtin_base,)
                ctx.count('classes_built_on_a_builtin_type')
            try:
                c = type('C%d' % len(self.classes), bases or (object,), ns)
            except TypeError:
                return
            how = rng.choice(['plain', 'plain', 'deco', 'decoonly'])
            ifs = self.pick()
            self.classes.append(c)
            if how == 'deco':
                self.declare_cls(c, ifs)
                implementer(*ifs)(c)
            elif how == 'decoonly':
                self.declare_cls(c, ifs, reset=True)
                implementer_only(*ifs)(c)
            ctx.op('newcls', c.__name__, [b.__name__ for b in bases], how, util.nm(ifs))
            return
        c = rng.choice(self.classes)
        if op == 'newobj' or not self.objs:
            o = c()
            o.zname = 'o%d' % len(self.objs)
            self.objs.append(o)
            ctx.op('newobj', o.zname, c.__name__)
            return
        o = rng.choice(self.objs)
        ifs = self.pick()
        if op in ('ci', 'cio', 'deco') and rng.random() < 0.12:
            # ... and among the interfaces declared for a class (of an unrelated class: neither an ancestor nor a
            # descendant, which would make the specification graph cyclic)
            others = [k for k in self.classes if k not in c.__mro__ and c not in k.__mro__
                      and not self._reaches(implementedBy(k), c) and not self._reaches(implementedBy(c), k)]
            if others:
                ifs = list(ifs)
                ifs.insert(rng.randint(0, len(ifs)), implementedBy(rng.choice(others)))
                ctx.count('class_declarations_with_class_specification')
        if op in ('dp', 'ap') and rng.random() < 0.2:
            # a class's implementation specification among the directly declared "interfaces" (of a class that is
            # not in the object's MRO, so that it cannot be redundant as a whole)
            others = [k for k in self.classes if k not in type(o).__mro__]
            if others:
                ifs = list(ifs)
                ifs.insert(rng.randint(0, len(ifs)), implementedBy(rng.choice(others)))
                ctx.count('direct_declarations_with_class_specification')
        if op == 'gc':
            gc.collect()
            ctx.op('gc')
        elif op == 'factory' and hasattr(o, '__dict__') and type(o).__hash__ is not None:
            # (hashable instances only: a factory is looked up in the table of built-in specifications on the way)
            # a callable *instance* declared as a factory: says what its products implement, and is stored in the
            # instance's own __dict__; it changes nothing about what the instance itself (or a super proxy of it)
            # provides
            ctx.op(op, o.zname, nm(ifs))
            if rng.random() < 0.7:
                implementer(*ifs)(o)
                self.fac[id(o)] = list(ifs)
            elif id(o) not in self.fac:
                implementedBy(o)          # merely asked: an empty factory declaration is stored on the instance
                self.fac[id(o)] = []
            ctx.count('factory_declarations_on_instances')
        elif op == 'ci':
            self.declare_cls(c, ifs)
            ctx.op(op, c.__name__, nm(ifs))
            outside = [i for i in self.ifaces if i not in self.cbound(c, 'U')]
            if ifs and outside and rng.random() < 0.1:
                # while the declaration is being announced, one of those told creates a new instance of the class and
                # declares something on it (a new dependent of the class's specification appears in the middle of the
                # notification): everybody else is told all the same, and the newcomer is right as well
                x_ = rng.choice(outside)
                born = []
                world = self

                class Breeder:
                    armed = True

                    def changed(self_, originally_changed):
                        if self_.armed:
                            self_.armed = False
                            o_ = c()
                            directlyProvides(o_, x_)
                            born.append(o_)
                br = Breeder()
                implementedBy(c).subscribe(br)
                try:
                    classImplements(c, *ifs)
                finally:
                    implementedBy(c).unsubscribe(br)
                for o_ in born:
                    o_.zname = 'o%d' % len(self.objs)
                    self.objs.append(o_)
                    self.M[id(o_)] = [x_]
                    self.Y[id(o_)] = [x_]
                    ctx.op('newobj-during-notification', o_.zname, c.__name__, nm([x_]))
                ctx.count('declarations_during_which_a_new_dependent_appeared')
            elif ifs and rng.random() < 0.15:
                classImplements(c, (x for x in ifs))
                ctx.count('declarations_from_one_shot_iterables')
            elif rng.random() < (0.5 if (ifs and any(type(ob).__bases__ == (c,) for ob in self.objs))
                                 else 0.12):
                # the declaration call fails half-way: something subscribed to the class's specification raises when it
                # is told.  The declaration itself has been recorded by then; an empty re-declaration (nothing new,
                # everything recomputed and everybody told again) must leave exactly what the history declared.
                dep = RaisingDependent()
                # ... sometimes it is subscribed to the specification of a subclass D(c) instead: the news has reached D
                # itself when the dependent refuses it, so a super proxy of a D instance (rest of the MRO: c and above,
                # all up to date) must show the new declaration even before anything is healed
                below = [ob for ob in self.objs if type(ob).__bases__ == (c,)]     # (a super proxy ignores what the object provides directly)
                target, proxy_of = c, None
                if below and ifs and rng.random() < 0.8:
                    proxy_of = rng.choice(below)
                    target = type(proxy_of)
                    providedBy(super(target, proxy_of))          # the synthesized specification is cached now
                implementedBy(target).subscribe(dep)
                try:
                    classImplements(c, *ifs)
                    raised = False
                except DependentFault:
                    raised = True
                implementedBy(target).unsubscribe(dep)
                if raised:
                    ctx.count('declarations_interrupted_by_a_raising_dependent')
                    if proxy_of is not None:
                        ctx.ev()
                        ctx.count('super_queries_right_after_an_interrupted_declaration')
                        seen = set(providedBy(super(target, proxy_of)).flattened())
                        # (interfaces only: a class specification among the declared things is not itself listed)
                        lost = [i for i in ifs if isinstance(i, InterfaceClass) and i not in seen]
                        if lost:
                            ctx.violation('super-misses-declaration-after-interrupted-propagation',
                                          {'obj': proxy_of.zname, 'thisclass': target.__name__, 'declared_on': c.__name__,
                                           'missing': nm(lost)})
                classImplements(c)
            else:
                classImplements(c, *ifs)
        elif op == 'deco':
            self.declare_cls(c, ifs)
            ctx.op(op, c.__name__, nm(ifs))
            implementer(*ifs)(c)
        elif op == 'cio':
            self.declare_cls(c, ifs, reset=True)
            ctx.op(op, c.__name__, nm(ifs))
            classImplementsOnly(c, *ifs)
        elif op == 'decoonly':
            self.declare_cls(c, ifs, reset=True)
            ctx.op(op, c.__name__, nm(ifs))
            implementer_only(*ifs)(c)
        elif op == 'cif':
            if not ifs:
                return
            self.declare_cls(c, ifs[:1])
            ctx.op(op, c.__name__, nm(ifs[:1]))
            classImplementsFirst(c, ifs[0])
        elif op == 'provider' and '__slots__' in vars(c) or op == 'provider' and any('__slots__' in vars(k) for k in c.__mro__[:-1]):
            # a class-level declaration replaces the ``__provides__`` slot descriptor of such a class (one name for two
            # things, by design): not generated
            return
        elif op == 'provider':
            r_ = rng.random()
            pm, py = self.cprov.get(c, ([], []))
            if r_ < 0.25 and ifs:
                # the class itself provides something more (what it provided before stays)
                self.cprov[c] = (list(pm) + [i for i in ifs if i not in pm], list(py) + [i for i in ifs if i not in py])
                ctx.op('class-alsoProvides', c.__name__, nm(ifs))
                alsoProvides(c, *ifs)
                ctx.count('class_level_alsoProvides')
            elif r_ < 0.4 and ifs:
                i = ifs[0]
                self.cprov[c] = ([p_ for p_ in pm if not (p_ is i or p_.extends(i))], [p_ for p_ in py if not (p_ is i or p_.extends(i))])
                ctx.op('class-noLongerProvides', c.__name__, nm(i))
                try:
                    noLongerProvides(c, i)
                except ValueError:
                    pass          # (implied by what the metaclass implements: nothing to remove)
                ctx.count('class_level_noLongerProvides')
            else:
                self.cprov[c] = (list(ifs), list(ifs))
                ctx.op(op, c.__name__, nm(ifs))
                if r_ < 0.7:
                    provider(*ifs)(c)
                else:
                    directlyProvides(c, *ifs)
        elif op == 'dp':
            self.declare_obj(o, ifs)
            ctx.op(op, o.zname, nm(ifs))
            if ifs and rng.random() < 0.15:
                # the interfaces handed over in a one-shot iterable (generator, map, iter)
                k_ = rng.randrange(3)
                directlyProvides(o, (x for x in ifs) if k_ == 0 else iter(list(ifs)) if k_ == 1 else map(lambda x: x, ifs))
                ctx.count('declarations_from_one_shot_iterables')
            else:
                directlyProvides(o, *ifs)
        elif op == 'ap':
            # alsoProvides(ob, *new) is directlyProvides(ob, directlyProvidedBy(ob), *new): the old declaration is
            # passed as a Declaration, which is flattened into its interfaces (a class specification declared
            # earlier is replaced by what it lists now)
            self.declare_obj(o, ifs, keepM=self.flat(self.M.get(id(o), [])), keepY=self.flat(self.Y.get(id(o), [])))
            ctx.op(op, o.zname, nm(ifs))
            alsoProvides(o, *ifs)
        elif op == 'nlp':
            if not ifs:
                return
            i = ifs[0]
            keepM = [p for p in self.flat(self.M.get(id(o), [])) if not (p is i or p.extends(i))]
            keepY = [p for p in self.flat(self.Y.get(id(o), [])) if not (p is i or p.extends(i))]
            self.declare_obj(o, [], keepM=keepM, keepY=keepY)
            Lc = self.cbound(type(o), 'L')
            Uc = self.cbound(type(o), 'U')
            ctx.op(op, o.zname, nm(i))
            try:
                noLongerProvides(o, i)
                raised = False
            except ValueError:
                raised = True
            ctx.ev()
            ctx.count('nlp')
            if i in Lc and not raised:
                ctx.violation('noLongerProvides-no-error', {'obj': o.zname, 'iface': nm(i)})
            if i not in Uc and raised:
                ctx.violation('noLongerProvides-spurious-error', {'obj': o.zname, 'iface': nm(i)})


class Fac:
    def __init__(self, tag, calls):
        self.tag, self.calls = tag, calls

    def __call__(self, ob):
        self.calls.append((self, ob))
        return (self.tag, id(ob))


def run_case(ctx, rng, job):
    w = World(ctx, rng, job['tier'])
    try:
        _run_case(ctx, rng, job, w)
    finally:
        if w.object_touched:
            classImplementsOnly(object)       # back to "object implements nothing" for the next case


def super_after_failed_query(ctx, rng):
    """A first super query that fails in the middle (the resolution order of the specification being put together
    is inconsistent and the strict setting is on for the duration of that one query) must not leave anything behind:
    the same and the other proxies of the object are asked afterwards, with the setting back to normal."""
    from zope.interface import ro
    if ro.C3.STRICT_IRO:
        return
    n = rng.randint(2, 3)
    ifs = [util.mkiface('IS%d' % i) for i in range(n)]
    own = util.mkiface('ISown')
    A = type('SA', (object,), {})
    B = implementer(*ifs)(type('SB', (A,), {}))
    C = implementer(*reversed(ifs))(type('SC', (A,), {}))
    D = type('SD', (B, C), {})
    if rng.random() < 0.5:
        D = implementer(own)(D)
    top = type('SE', (D,), {}) if rng.random() < 0.4 else D
    d = top()
    implementedBy(top)          # everything but the proxies' specifications exists before the strict query
    mro = list(top.__mro__)
    start = rng.choice(mro[:-1])
    ro.C3.STRICT_IRO = True
    try:
        try:
            providedBy(super(start, d))
        except ro.InconsistentResolutionOrderError:
            ctx.count('super_queries_failed_under_a_strict_order')
        else:
            ctx.count('super_queries_answered_under_a_strict_order')
    finally:
        ro.C3.STRICT_IRO = False
    declared = {B: set(ifs), C: set(ifs), D: {own} if own in implementedBy(D).declared else set()}
    for k in mro[:-1]:
        # (this world may have declared something on ``object`` itself: the last class of every MRO)
        exp = {Interface} | set(implementedBy(object).flattened())
        for later in mro[mro.index(k) + 1:]:
            exp |= declared.get(later, set())
        ctx.ev(2)
        got = set(providedBy(super(k, d)).flattened())
        got2 = set(implementedBy(super(k, d)).flattened())
        if got != exp or got2 != exp:
            ctx.violation('super-after-a-failed-first-query', {'asked_first': start.__name__, 'proxy_of': k.__name__,
                                                                 'expected': sorted(map(nm, exp)), 'providedBy': sorted(map(nm, got)),
                                                                 'implementedBy': sorted(map(nm, got2))}, abort=False)


def _run_case(ctx, rng, job, w):
    big = job['tier'] == 'thorough'
    nsteps = rng.randint(5, 60 if big else 30)
    prop = job['prop']
    registry = facs = calls = None
    if prop == 'C19':
        calls = []
        registry = AdapterRegistry()
        w.target = util.mkiface('ITarget')
        facs = {}
        for i in w.ifaces:
            if rng.random() < 0.7:
                facs[i] = Fac('f_' + nm(i), calls)
                registry.register([i], w.target, '', facs[i])
    kinds = []
    check_p = rng.choice([1.0, 1.0, 0.3, 0.0])
    first_super = None
    changed_after_super = 0
    for s in range(nsteps):
        before = len(ctx.log)
        w.step()
        if len(ctx.log) > before:
            kinds.append(ctx.log[-1][0])
            if first_super is not None and ctx.log[-1][0] in ('ci', 'cio', 'cif', 'deco', 'decoonly'):
                changed_after_super += 1
        if prop == 'C01':
            # "in any order relative to ... earlier queries": besides histories in which everything is queried
            # after every step (all lazily built declarations warm), run histories that are queried only now
            # and then, or only at the end (declarations made on cold, never-queried classes and objects)
            if check_p >= 1.0 or s == nsteps - 1 or rng.random() < check_p:
                w.check()
                ctx.count('check_points[%s]' % ('every-step' if check_p >= 1.0 else 'sparse' if check_p else 'end-only'))
        else:
            # C19: query the proxies on a seeded subset of steps so that declaration
            # changes happen both with a cold and with a warm per-class super cache
            if rng.random() < 0.6 or s == nsteps - 1:
                if w.objs and first_super is None:
                    first_super = s
                w.check_super(registry, facs, calls)
    if prop == 'C01':
        nontrivial = w.narrowed or w.mutated_after_dependents
        ctx.count('histories_with_narrowing', int(w.narrowed))
        ctx.count('histories_mutating_class_with_dependents', int(w.mutated_after_dependents))
    else:
        super_after_failed_query(ctx, rng)
        nontrivial = changed_after_super > 0 and any(len(type(o).__mro__) >= 3 for o in w.objs)
        ctx.count('histories_changed_after_first_super_query', int(changed_after_super > 0))
    ctx.shape(kinds, nontrivial)
    ctx.count('steps', len(kinds))
    if ctx.case < 2:
        ctx.sample({'mode': ctx.mode, 'history': [list(map(str, r)) for r in ctx.log[:40]]})
