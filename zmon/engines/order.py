"""Engine ``order``: C12 total, hash-consistent, process-independent order (DESIGN 3.12)."""
import hashlib
import operator

from zope.interface import Interface, classImplements, implementedBy, implementer
from zope.interface.interface import INTERFACE_METHODS, InterfaceClass

NAMES = ['', 'A', 'AB', 'a', '\xe9', 'é', 'B', 'A_', 'Z', '\U0001f600']
MODS = ['', 'm', 'mm', 'n', '\xfc', 'M', 'm.n', 'zope.interface.declarations']
OPS = [('lt', operator.lt), ('le', operator.le), ('gt', operator.gt), ('ge', operator.ge),
       ('eq', operator.eq), ('ne', operator.ne)]


def key(x):
    return (x.__name__, x.__module__)


class NoAttrs:
    pass


class Caseless(str):
    """Text whose case does not matter, consistently (all six comparisons and the hash)."""

    def _k(self):
        return str.lower(self)

    def _o(self, other):
        return str.lower(other) if isinstance(other, str) else None

    def __hash__(self):
        return hash(self._k())

    def __eq__(self, other):
        o = self._o(other)
        return NotImplemented if o is None else self._k() == o

    def __ne__(self, other):
        o = self._o(other)
        return NotImplemented if o is None else self._k() != o

    def __lt__(self, other):
        o = self._o(other)
        return NotImplemented if o is None else self._k() < o

    def __le__(self, other):
        o = self._o(other)
        return NotImplemented if o is None else self._k() <= o

    def __gt__(self, other):
        o = self._o(other)
        return NotImplemented if o is None else self._k() > o

    def __ge__(self, other):
        o = self._o(other)
        return NotImplemented if o is None else self._k() >= o


class SubInterfaceClass(InterfaceClass):
    pass


class RecordingInterfaceClass(InterfaceClass):
    """An interface that notes the sort key of every dependent at the moment it subscribes (what a container that
    keeps dependents sorted would see)."""
    seen = []

    def subscribe(self, dependent):
        RecordingInterfaceClass.seen.append((dependent, getattr(dependent, '__name__', None), getattr(dependent, '__module__', None)))
        return InterfaceClass.subscribe(self, dependent)


def run_case(ctx, rng, job):
    big = job['tier'] == 'thorough'
    ifs = []

    def fresh(text):
        # an equal but distinct str object (names built at run time are not interned)
        return ''.join(list(text)) if len(text) > 1 and rng.random() < 0.6 else text
    for _ in range(rng.randint(6, 16 if big else 11)):
        ifs.append(InterfaceClass(fresh(rng.choice(NAMES)), (Interface,), {}, __module__=fresh(rng.choice(MODS))))
    # names with a space: Element.__init__ takes such a name for a docstring and sets __name__ to None; equality
    # and hashing must still agree on the resulting key (None, module)
    # (kept apart: against a str-named interface the key (None, m) is not even comparable for equality in the
    #  Python implementation; such names are not interface names, only the hash/equality agreement is checked)
    spaced = [InterfaceClass(rng.choice(['spaced name', 'other words here']), (Interface,), {}, __module__=rng.choice(MODS[1:3]))
              for _ in range(rng.randint(2, 3))]
    for a in spaced:
        for b in spaced:
            ctx.ev()
            ctx.count('spaced_name_pairs')
            keq = (a.__name__, a.__module__) == (b.__name__, b.__module__)
            if (a == b) is not keq or (a != b) is keq or (keq and hash(a) != hash(b)):
                ctx.violation('spaced-name-eq-hash', {'a': [str(a.__name__), a.__module__], 'b': [str(b.__name__), b.__module__],
                                                      'eq': a == b, 'hash_equal': hash(a) == hash(b)})
    # ... and they take part in the general pool: equality and hashing against ordinarily named interfaces are
    # plain tuple equality of the keys (ordering such a pair is unorderable, like the keys themselves)
    ifs.extend(spaced[:2])
    # interfaces made where no module name can be found (exec'd code, C callers): __module__ is None.  Keys (name, None)
    # compare like any tuple: equal keys are equal and unordered, different names decide, and None against a str module
    # under the same name is unorderable
    nomod_names = rng.sample(NAMES[1:], 2)
    nomod = [eval('InterfaceClass(n, (Interface,), {})', {'InterfaceClass': InterfaceClass, 'Interface': Interface, 'n': fresh(n_)})
             for n_ in nomod_names + nomod_names[:1]]
    if all(x.__module__ is None for x in nomod):
        ctx.count('interfaces_without_module', len(nomod))
        ifs.extend(nomod)
    # names that are text of a caller's own kind (a str subclass with a consistent comparison and hash of its own: case
    # does not matter): interfaces are ordered, compared and hashed by the names as they compare themselves
    ci = [InterfaceClass(Caseless(n_), (Interface,), {}, __module__=rng.choice(['m', Caseless('M')])) for n_ in ('Qx', 'qX', 'QY', 'qy', 'Qz')]
    # (a pool of their own: mixed with case-sensitive names the *keys* are not totally ordered)
    if all(type(x.__name__) is Caseless for x in ci):
        ctx.count('interfaces_with_names_of_a_str_subclass', len(ci))
        for a in ci:
            for b in ci:
                ka, kb = key(a), key(b)
                for oname, op in OPS:
                    ctx.ev()
                    try:
                        got = op(a, b)
                    except Exception as e:
                        got = 'raised %s' % type(e).__name__
                    if got is not op(ka, kb):
                        ctx.violation('operator-vs-key', {'op': oname, 'a': ['caseless'] + list(map(str, ka)), 'b': ['caseless'] + list(map(str, kb)),
                                                          'got': repr(got), 'expected': op(ka, kb)})
                if ka == kb and hash(a) != hash(b):
                    ctx.violation('equal-but-hash-differs', {'a': list(map(str, ka)), 'b': list(map(str, kb))})
        ctx.ev()
        if [id(x) for x in sorted(ci)] != [id(x) for x in sorted(ci, key=key)]:
            ctx.violation('sorted-not-stable-by-key', {'pool': 'caseless names'})
    # equal-keyed twins, on purpose (never wired into one graph)
    for _ in range(rng.randint(1, 3)):
        t = rng.choice([x for x in ifs if type(x.__name__) is str and type(x.__module__) is str])
        ifs.append(InterfaceClass(fresh(t.__name__), (Interface,), {}, __module__=fresh(t.__module__)))
    # equal-keyed twins whose concrete classes differ: an instance of an InterfaceClass subclass, and an interface
    # defining an interfacemethod (the library builds a private InterfaceClass subclass for it)
    for _ in range(rng.randint(1, 2)):
        t = rng.choice([x for x in ifs if type(x.__name__) is str and type(x.__module__) is str])
        if rng.random() < 0.5:
            ifs.append(SubInterfaceClass(fresh(t.__name__), (Interface,), {}, __module__=fresh(t.__module__)))
        else:
            ifs.append(InterfaceClass(fresh(t.__name__), (Interface,),
                                      {INTERFACE_METHODS: {'extra_method': lambda self: 1}}, __module__=fresh(t.__module__)))
        ctx.count('twins_of_another_concrete_class')
    # the key of a specification is fixed: whatever (name, module) a dependent shows when it subscribes to a base is
    # what it shows ever after (specifications built around constructor bases: factories, old-style declarations)
    del RecordingInterfaceClass.seen[:]
    IRec = RecordingInterfaceClass('IRec', (Interface,), {}, __module__='m')

    def factory_function():
        pass
    implementer(IRec)(factory_function)
    LegacyCls = type('Legacy', (), {'__implemented__': (IRec,)})
    implementedBy(LegacyCls)
    Plain = type('Plain', (), {})
    classImplements(Plain, IRec)
    InterfaceClass('IRecSub', (IRec,), {}, __module__='m')
    for dep, n0, m0 in RecordingInterfaceClass.seen:
        ctx.ev()
        ctx.count('dependent_keys_recorded_at_subscription')
        if (getattr(dep, '__name__', None), getattr(dep, '__module__', None)) != (n0, m0):
            ctx.violation('key-changed-after-subscription', {'at_subscription': [str(n0), str(m0)],
                                                             'now': [str(getattr(dep, '__name__', None)), str(getattr(dep, '__module__', None))]})
    # specifications synthesised for super() objects of distinctly named classes are distinct specifications with
    # distinct keys: any two of them are strictly ordered one way or the other
    SBase = type('SBase', (), {})
    SMixin = type('SMixin', (SBase,), {})
    SOne = type('SOne', (SMixin,), {})
    STwo = type('STwo', (SMixin,), {})
    SThree = type('SThree', (STwo,), {})
    for c_ in (SBase, SMixin, SOne, STwo, SThree):
        c_.__module__ = 'm'
    supers = [implementedBy(super(SMixin, SOne)), implementedBy(super(SMixin, STwo)), implementedBy(super(SMixin, SThree)),
              implementedBy(super(SOne, SOne)), implementedBy(super(STwo, SThree)), implementedBy(super(SMixin, SOne()))]
    for x in supers:
        for y in supers:
            if x is y:
                continue
            ctx.ev()
            ctx.count('super_specification_pairs')
            if key(x) == key(y) or (x < y) == (y < x) or (x < y) != (key(x) < key(y)) or x == y:
                ctx.violation('super-specifications-not-strictly-ordered', {'a': list(key(x)), 'b': list(key(y)),
                                                                            'a<b': x < y, 'b<a': y < x})
    # classes that compare (and hash) equal through their metaclass although they are different classes with different
    # names: each specification is ordered by its own class's name
    class ValueMeta(type):
        def __eq__(cls, other):
            return isinstance(other, ValueMeta)

        def __hash__(cls):
            return 17
    vm = [ValueMeta(nm_, (), {}) for nm_ in rng.sample(['VA', 'VB', 'VC'], 3)]
    for c_ in vm:
        c_.__module__ = 'm'
    vspecs = [implementedBy(c_) for c_ in vm]
    for c_, sp in zip(vm, vspecs):
        ctx.ev()
        ctx.count('value_equal_classes')
        if not str(sp.__name__).endswith(c_.__name__):
            ctx.violation('specification-key-of-another-class', {'class': c_.__name__, 'key': list(key(sp))})
    for x in vspecs:
        for y in vspecs:
            if x is not y and ((x < y) == (y < x) or (x < y) != (key(x) < key(y))):
                ctx.violation('value-equal-classes-not-ordered-by-name', {'a': list(key(x)), 'b': list(key(y))})
    classes = []
    for _ in range(rng.randint(2, 4)):
        c = type(rng.choice(['A', 'B', 'Z', 'K']), (), {})
        c.__module__ = rng.choice(['m', 'n', ''])
        classes.append(c)
    # distinct classes sharing one fully qualified name (class factories, reloaded modules): their specifications
    # have equal keys, are not equal, and must not be ordered in either direction
    for _ in range(rng.randint(1, 2)):
        t = rng.choice(classes)
        c = type(t.__name__, (), {})
        c.__module__ = t.__module__
        classes.append(c)
        ctx.count('same_qualified_name_classes')
    specs = [implementedBy(c) for c in classes]
    # a class specification whose key collides with an interface's key
    collide = type('AB', (), {})
    collide.__module__ = 'x'
    specs.append(implementedBy(collide))
    pool = ifs + specs
    rng.shuffle(pool)
    isif = {id(x) for x in ifs}
    for a in pool:
        for b in pool:
            ka, kb = key(a), key(b)
            kind = ('I' if id(a) in isif else 'S') + ('I' if id(b) in isif else 'S')
            ctx.count('pairs[%s]' % kind)
            nontriv = a is not b and (ka[0] == kb[0] or ka[1] == kb[1] or kind in ('IS', 'SI'))
            if ka == kb and a is not b:
                ctx.count('equal_key_distinct_pairs')
                if ka[0] is not None and (a.__name__ is not b.__name__):
                    ctx.count('equal_names_in_distinct_str_objects')
            for oname, op in OPS:
                try:
                    exp = op(ka, kb)
                except TypeError:
                    # (None, m) against (str, m): the key itself is unorderable; the library must say so too
                    try:
                        got = op(a, b)
                        ctx.violation('unorderable-key-ordered', {'op': oname, 'a': list(map(str, ka)), 'b': list(map(str, kb)), 'got': repr(got)})
                    except TypeError:
                        pass
                    ctx.ev()
                    continue
                if oname in ('eq', 'ne') and (id(a) not in isif or id(b) not in isif):
                    if id(a) not in isif and id(b) not in isif:
                        exp = (a is b) if oname == 'eq' else (a is not b)   # class specs: identity equality
                    elif ka != kb:
                        pass            # mixed, different keys: not equal either way
                    else:
                        continue        # mixed pair with colliding key: not fixed by the statement
                try:
                    got = op(a, b)
                except Exception as e:
                    got = 'raised %s' % type(e).__name__
                ctx.ev()
                if got is not exp:
                    ctx.violation('operator-vs-key', {'op': oname, 'a': [type(a).__name__] + list(ka),
                                                      'b': [type(b).__name__] + list(kb), 'got': repr(got), 'expected': exp})
            # reflected forms agree
            ctx.ev()
            try:
                ka < kb
                orderable = True
            except TypeError:
                orderable = False
            if (a == b) != (b == a) or (a != b) == (a == b) or \
                    (orderable and ((a < b) != (b > a) or (a <= b) != (b >= a))):
                ctx.violation('reflection', {'a': list(map(str, ka)), 'b': list(map(str, kb))})
            if id(a) in isif and id(b) in isif and a == b:
                ctx.ev()
                if hash(a) != hash(b):
                    ctx.violation('equal-but-hash-differs', {'a': list(ka)})
            ctx.shape(('pair', kind, ka[0] == kb[0], ka[1] == kb[1], ((ka > kb) - (ka < kb)) if orderable else 'n/a'), nontrivial=nontriv)
    for a in ifs:
        ctx.ev(2)
        ok = (a < None) and (a <= None) and not (a > None) and not (a >= None) and (a != None) and not (a == None) and \
            (None > a) and (None >= a) and not (None < a) and not (None <= a)   # noqa: E711
        if not ok:
            ctx.violation('none-ordering', {'a': list(key(a))})
        for f in (NoAttrs(), 3, 'x', (1, 2)):
            ctx.ev()
            ctx.count('foreign_pairs')
            if (a == f) is not False or (a != f) is not True or (f == a) is not False:
                ctx.violation('foreign-equality', {'a': list(key(a)), 'foreign': repr(f)})
            for oname, op in OPS[:4]:
                try:
                    op(a, f)
                    ctx.violation('foreign-ordering-no-typeerror', {'a': list(key(a)), 'op': oname, 'foreign': repr(f)})
                except TypeError:
                    pass
    # an interface name whose comparison runs code that renames the *other* interface meanwhile (names and modules are
    # plain writable attributes): the comparison must survive it (C: the strings being compared must stay alive)
    victim = []

    class Meddling(str):
        __hash__ = str.__hash__

        def __eq__(self, other):
            v = victim[0]
            v.__name__ = ''.join(['renamed', str(rng.random())])
            v.__ibmodule__ = ''.join(['elsewhere', str(rng.random())])
            junk = [bytearray(64) for _ in range(500)]
            del junk
            return str.__eq__(self, other)

        def __ne__(self, other):
            return not self.__eq__(other)
    med = InterfaceClass(Meddling('AAAA'), (Interface,), {}, __module__='m')
    vic = InterfaceClass(''.join(['B', 'name', str(rng.random())]), (Interface,), {}, __module__=''.join(['mod', str(rng.random())]))
    victim.append(vic)
    for _ in range(6):
        for oname, op in OPS:
            ctx.ev()
            ctx.count('comparisons_with_a_meddling_name')
            r = op(med, vic)
            if not isinstance(r, bool):
                ctx.violation('meddling-name-comparison', {'op': oname, 'got': repr(r)})
            r = op(vic, med)
    # foreign operands that do have a name and a module (classes, functions, namespaces): the documented comparison goes by
    # the two attributes whatever the other object is; and foreign operands with comparison methods of their own get their
    # turn (the interface says NotImplemented) when they lack the attributes
    import types

    class Refl:
        def __lt__(self, other):
            return 'refl-lt'

        def __gt__(self, other):
            return 'refl-gt'

        def __le__(self, other):
            return 'refl-le'

        def __ge__(self, other):
            return 'refl-ge'

        def __eq__(self, other):
            return 'refl-eq'

        def __ne__(self, other):
            return 'refl-ne'

        __hash__ = None
    plain_named = [x for x in ifs if type(x.__name__) is str and type(x.__module__) is str]
    for a in plain_named[:6]:
        fcls = type(''.join(list(a.__name__)) or 'X', (), {})
        fcls.__module__ = ''.join(list(a.__module__))
        others = [fcls, types.SimpleNamespace(__name__='AB', __module__='m'), types.SimpleNamespace(__name__=a.__name__, __module__='zzz')]
        for f in others:
            kf = (f.__name__, f.__module__)
            for oname, op in OPS:
                ctx.ev()
                ctx.count('foreign_pairs_with_name_and_module')
                try:
                    got = op(a, f)
                except Exception as e:
                    got = 'raised %s' % type(e).__name__
                if got is not op(key(a), kf):
                    ctx.violation('foreign-operand-with-name-and-module', {'op': oname, 'a': list(key(a)), 'foreign': list(kf),
                                                                           'got': repr(got), 'expected': op(key(a), kf)})
        half = types.SimpleNamespace(__name__=a.__name__)       # a name, no module: not comparable
        ctx.ev()
        try:
            ok = (a == half) is False and (a != half) is True
            try:
                a < half
                ok = False
            except TypeError:
                pass
        except Exception:
            ok = False
        if not ok:
            ctx.violation('foreign-operand-with-a-name-only', {'a': list(key(a))})
        rf = Refl()
        ctx.ev()
        ctx.count('foreign_pairs_with_their_own_comparison')
        got = (a < rf, a <= rf, a > rf, a >= rf, a == rf, a != rf)
        if got != ('refl-gt', 'refl-ge', 'refl-lt', 'refl-le', 'refl-eq', 'refl-ne'):
            ctx.violation('foreign-comparison-methods-not-given-their-turn', {'a': list(key(a)), 'got': repr(got)})
    named = [x for x in pool if x.__name__ is not None and x.__module__ is not None]
    for _ in range(300 if big else 120):
        a, b, c = (rng.choice(named) for _ in range(3))
        ctx.ev()
        ctx.count('triples')
        if a < b and b < c and not a < c:
            ctx.violation('transitivity', {'a': list(key(a)), 'b': list(key(b)), 'c': list(key(c))})
        if (a < b) + (b < a) + (key(a) == key(b)) != 1:
            ctx.violation('trichotomy', {'a': list(key(a)), 'b': list(key(b))})
    # an interface renamed to another one's key (names and modules are plain writable attributes; a reloaded module that
    # is patched in place does this): from then on the two are equal and unordered, like their keys.  (The hash is not
    # looked at: it is computed once, at creation.)
    plain = [x for x in ifs if type(x.__name__) is str and type(x.__module__) is str]
    if len(plain) >= 2:
        ra = InterfaceClass('Renamed%d' % rng.randrange(10 ** 6), (Interface,), {}, __module__='m')
        rb_ = rng.choice(plain)
        hash(ra), hash(rb_), ra == rb_
        ra.__name__ = ''.join(list(rb_.__name__))
        ra.__ibmodule__ = ''.join(list(rb_.__module__))
        if key(ra) == key(rb_):
            for x, y in ((ra, rb_), (rb_, ra)):
                for oname, op in OPS:
                    ctx.ev()
                    ctx.count('comparisons_after_a_rename')
                    if op(x, y) is not op(key(x), key(y)):
                        ctx.violation('operator-vs-key', {'op': oname, 'after': 'rename to the other key', 'a': list(key(x)), 'b': list(key(y)),
                                                          'got': repr(op(x, y)), 'expected': op(key(x), key(y))})
    # sorting: equals a stable sort by key; rendered result is process independent
    pool = named
    mixed = pool + [None]
    got = sorted(mixed)
    exp = sorted(pool, key=key) + [None]
    ctx.ev()
    if len(got) != len(exp) or not all(x is y for x, y in zip(got, exp)):
        ctx.violation('sorted-not-stable-by-key', {'got': [key(x) if x is not None else None for x in got]})
    idx = {id(x): n for n, x in enumerate(pool)}
    rendered = repr([(type(x).__name__, x.__name__, x.__module__, idx[id(x)]) if x is not None else None for x in got])
    ctx.extra.setdefault('digests', {})['%s/%s' % (job['shard'], ctx.case)] = hashlib.sha1(rendered.encode('utf8', 'surrogatepass')).hexdigest()
    ctx.count('sorted_collections')
    if ctx.case < 1:
        ctx.sample({'mode': ctx.mode, 'hashseed': job.get('hashseed'), 'sorted': rendered[:600]})
