"""Engine ``attrs``: C15 attribute / tagged value / invariant resolution follows
``__iro__``, all accessors agree, and everything follows rebasing (DESIGN 3.15)."""
from zope.interface import Attribute, Interface, implementer
from zope.interface.exceptions import (
    BrokenMethodImplementation, Invalid, MultipleInvalid,
)
from zope.interface.interface import InterfaceClass, fromFunction
from zope.interface.verify import verifyObject

from zmon import util
from zmon.util import nm

NAMES = ['a', 'b', 'c', 'm', 'n']
TAGS = ['t1', 't2', 't3']
_MISSING = object()


def mkfunc(nargs):
    args = ', '.join('x%d' % i for i in range(nargs))
    ns = {}
    exec('def m(%s): pass' % args, ns)
    return ns['m']


class Inv:
    def __init__(self, tag, fail, calls):
        self.tag, self.fail, self.calls = tag, fail, calls
        self.error = Invalid('inv %s' % (tag,))

    seen_objects = []

    def __call__(self, ob):
        self.calls.append(self)
        Inv.seen_objects.append(ob)
        if self.fail:
            raise self.error


class Watcher:
    """A dependent of an interface (what an adapter registry's lookup object is): told about every change of the
    interface's resolution order, it looks names up right there, in the middle of the propagation.  The interface it
    is told about already has its new __iro__; what it answers must follow that."""

    def __init__(self, world, iface):
        self.world, self.iface = world, iface

    def changed(self, originally_changed):
        w, I = self.world, self.iface
        w.ctx.count('lookups_from_a_dependents_changed_callback')
        for name in NAMES:
            hits = [x for x in I.__iro__ if name in w.own.get(id(x), {})]
            exp = w.own[id(hits[0])][name] if hits else None
            got = I.get(name)
            if got is not exp:
                w.callback_mismatches.append({'iface': I.__name__, 'name': name, 'iro': nm(I.__iro__),
                                              'expected_from': hits[0].__name__ if hits else None,
                                              'got_from': getattr(getattr(got, 'interface', None), '__name__', None)})


class World:
    def __init__(self, ctx, rng, tier):
        self.ctx, self.rng = ctx, rng
        self.big = tier == 'thorough'
        self.mod = util.fresh_module()
        self.ifaces = []
        self.own = {}       # id(iface) -> {name: description}
        self.sig = {}       # id(description) -> nargs (methods)
        self.tags = {}      # id(iface) -> {tag: value}
        self.invs = {}      # id(iface) -> [Inv]
        self.calls = []
        self.retired = []
        self.callback_mismatches = []
        self.watchers = []
        n = rng.randint(3, 10 if self.big else 7)
        for i in range(n):
            self.add(i)
        for I in self.ifaces:
            if rng.random() < 0.5:
                wt = Watcher(self, I)
                self.watchers.append(wt)
                I.subscribe(wt)

    def add(self, i, twin_of=None):
        rng = self.rng
        k = min(len(self.ifaces), rng.choice([0, 1, 1, 2, 2, 3]))
        bases = tuple(rng.sample(self.ifaces, k))
        if twin_of is not None:
            bases = ()
        own, attrs = {}, {}
        for name in NAMES:
            if rng.random() < 0.4:
                if name in ('m', 'n'):
                    nargs = rng.randint(0, 3)
                    d = fromFunction(mkfunc(nargs), name=name)
                    self.sig[id(d)] = nargs
                else:
                    d = Attribute('doc of %s in I%d' % (name, i))
                own[name] = d
                attrs[name] = d
        # values include None / 0 / False: "found, and the value is falsy" must not be taken for "not found"
        tags = {t: rng.choice([('v', i, t), ('v', i, t), None, 0, False, ()]) for t in TAGS if rng.random() < 0.35}
        invs = [Inv((i, j), rng.random() < 0.3, self.calls) for j in range(rng.choice([0, 0, 1, 2]))]
        try:
            I = InterfaceClass(twin_of.__name__ if twin_of is not None else 'I%d' % i, bases or (Interface,), attrs,
                               __module__=self.mod)
        except Exception as e:
            if type(e).__name__ != 'InconsistentResolutionOrderError':
                raise
            return
        for t, v in tags.items():
            I.setTaggedValue(t, v)
        if invs:
            I.setTaggedValue('invariants', list(invs))
        if twin_of is None:
            self.ifaces.append(I)
        self.own[id(I)] = own
        self.tags[id(I)] = tags
        self.invs[id(I)] = invs
        self.ctx.op('iface' if twin_of is None else 'redefined-twin', I.__name__, nm(bases), sorted(own), sorted(tags), len(invs))
        return I

    def reload_twin(self):
        """An interface is defined again under the same name and module (what reloading a module does) with other
        definitions, and everything that extended the old object is re-based onto the new one.  The two are equal
        (same name and module) but not identical; resolution must follow the object that is in __bases__ now."""
        rng = self.rng
        cands = [i for i, A in enumerate(self.ifaces)
                 if tuple(A.__bases__) != (Interface,) and any(A in J.__bases__ for J in self.ifaces)]
        if not cands:
            return False
        i = rng.choice(cands)
        A = self.ifaces[i]
        # (the new object hangs directly below the root while the old one does not: two equal-keyed dependents
        #  of one specification collide in its weak dependents table - an artefact of equal keys, DESIGN 2.5)
        A2 = self.add(i, twin_of=A)
        if A2 is None:
            return False
        for J in self.ifaces:
            if any(b is A for b in J.__bases__):
                J.__bases__ = tuple(A2 if b is A else b for b in J.__bases__)
        self.ifaces[i] = A2
        A.__bases__ = ()
        self.retired.append(A)
        self.ctx.count('redefined_twins_swapped_in')
        return True

    def resolve(self, I, name):
        hits = [x for x in I.__iro__ if name in self.own.get(id(x), {})]
        return hits

    def check(self, warm_tag):
        ctx = self.ctx
        rng = self.rng
        if self.callback_mismatches:
            ctx.violation('lookup-during-change-propagation-does-not-follow-new-order', self.callback_mismatches[0])
        order = list(self.ifaces)
        mode = rng.choice(['all-in-order', 'shuffled', 'subset'])
        if mode != 'all-in-order':
            rng.shuffle(order)
        if mode == 'subset' and warm_tag != 'final':
            # leave some interfaces unasked (their memo stays cold or stale across the next re-basing)
            order = order[:max(1, len(order) // 2)]
        ctx.count('check_order[%s]' % mode)
        for I in order:
            allnames = set()
            if rng.random() < 0.5:
                # per-name accessors first: the per-specification memo is filled by get() before the
                # enumerating accessors run, instead of the other way round
                for name in rng.sample(NAMES, len(NAMES)):
                    I.get(name)
                    I.queryTaggedValue(rng.choice(TAGS))
            nd = dict(I.namesAndDescriptions(all=True))
            names_all = set(I.names(all=True))
            it = list(iter(I))
            for name in NAMES:
                hits = self.resolve(I, name)
                exp = self.own[id(hits[0])][name] if hits else None
                if hits:
                    allnames.add(name)
                if len(hits) >= 2:
                    ctx.count('names_defined_by_2plus_ancestors')
                    if self.own[id(hits[0])][name] is not self.own[id(hits[-1])][name]:
                        self.nontrivial = True
                ctx.count('name_comparisons')
                got = {}
                got['get'] = I.get(name)
                got['queryDescriptionFor'] = I.queryDescriptionFor(name)
                try:
                    got['getitem'] = I[name]
                except KeyError:
                    got['getitem'] = None
                try:
                    got['getDescriptionFor'] = I.getDescriptionFor(name)
                except KeyError:
                    got['getDescriptionFor'] = None
                got['namesAndDescriptions(all)'] = nd.get(name)
                for k, v in got.items():
                    ctx.ev()
                    if v is not exp:
                        mech = None
                        if k == 'namesAndDescriptions(all)' and v is not None and exp is not None:
                            mech = 'namesAndDescriptions_by_bases_not_iro'
                        ctx.violation('description-mismatch', {
                            'iface': I.__name__, 'name': name, 'accessor': k, 'warm': warm_tag,
                            'expected_from': hits[0].__name__ if hits else None,
                            'got_from': getattr(getattr(v, 'interface', None), '__name__', None),
                            'iro': nm(I.__iro__)}, mechanism=mech)
                pres = {'in': name in I, 'iter': name in it, 'names(all)': name in names_all,
                        'get(default)': I.get(name, _MISSING) is not _MISSING,
                        'queryDescriptionFor(default)': I.queryDescriptionFor(name, _MISSING) is not _MISSING}
                for k, v in pres.items():
                    ctx.ev()
                    if bool(v) != bool(hits):
                        ctx.violation('presence-mismatch', {'iface': I.__name__, 'name': name, 'accessor': k,
                                                            'expected': bool(hits), 'warm': warm_tag})
            ctx.ev(3)
            if set(nd) != allnames or names_all != allnames or set(it) != allnames or len(it) != len(set(it)):
                ctx.violation('name-set-mismatch', {'iface': I.__name__, 'expected': sorted(allnames),
                                                    'namesAndDescriptions': sorted(nd), 'names': sorted(names_all), 'iter': sorted(it)})
            own = self.own[id(I)]
            ctx.ev(2)
            if set(I.names()) != set(own) or dict(I.namesAndDescriptions()) != own:
                ctx.violation('direct-names-mismatch', {'iface': I.__name__})
            # tagged values
            union = set()
            for t in TAGS:
                hits = [x for x in I.__iro__ if t in self.tags.get(id(x), {})]
                exp = self.tags[id(hits[0])][t] if hits else None
                if hits:
                    union.add(t)
                if len(hits) >= 2:
                    ctx.count('tags_defined_by_2plus_ancestors')
                ctx.ev(3)
                ctx.count('tag_comparisons')
                g1 = I.queryTaggedValue(t)
                g2 = I.queryTaggedValue(t, _MISSING)
                # a caller-supplied default that happens to be the nearest value must not hide that value
                for dflt in (None, 0, False, ()):
                    gd = I.queryTaggedValue(t, dflt)
                    ctx.ev()
                    if hits:
                        if gd is not exp and not (gd == exp and type(gd) is type(exp)):
                            ctx.violation('tagged-value-default-collision', {'iface': I.__name__, 'tag': t, 'default': repr(dflt),
                                                                             'got': repr(gd), 'expected': repr(exp), 'warm': warm_tag})
                    elif gd is not dflt:
                        ctx.violation('tagged-value-default-not-returned', {'iface': I.__name__, 'tag': t, 'default': repr(dflt)})
                if hits and exp in (None, 0, False, ()) and len(hits) >= 2:
                    ctx.count('falsy_nearest_tag_values')
                try:
                    g3 = I.getTaggedValue(t)
                except KeyError:
                    g3 = None
                if g1 is not exp or (g2 is _MISSING) != (not hits) or (g3 is not exp and hits):
                    ctx.violation('tagged-value-mismatch', {'iface': I.__name__, 'tag': t, 'expected': exp,
                                                            'query': g1, 'get': g3, 'warm': warm_tag})
                d = self.tags[id(I)].get(t)
                if I.queryDirectTaggedValue(t) is not d:
                    ctx.violation('direct-tag-mismatch', {'iface': I.__name__, 'tag': t})
            if any(self.invs.get(id(x)) for x in I.__iro__):
                union.add('invariants')
            ctx.ev()
            if set(I.getTaggedValueTags()) != union:
                ctx.violation('tags-union-mismatch', {'iface': I.__name__, 'got': sorted(I.getTaggedValueTags()), 'expected': sorted(union)})
            # invariants
            expected_run = [inv for x in I.__iro__ for inv in self.invs.get(id(x), [])]
            fails = [inv for inv in expected_run if inv.fail]
            del self.calls[:]
            errors = []
            raised = None
            subject = object()
            del Inv.seen_objects[:]
            try:
                I.validateInvariants(subject, errors)
            except Invalid as e:
                raised = e
            ctx.ev()
            ctx.count('invariant_validations')
            if any(o is not subject for o in Inv.seen_objects):
                ctx.violation('invariant-called-with-something-else', {'iface': I.__name__, 'got': [type(o).__name__ for o in Inv.seen_objects][:3]})
            ok = [c.tag for c in self.calls] == [c.tag for c in expected_run] and \
                len(errors) == len(fails) and all(a is b.error for a, b in zip(errors, fails)) and \
                (raised is not None) == bool(fails)
            if not ok:
                ctx.violation('invariants-with-list', {'iface': I.__name__, 'ran': [c.tag for c in self.calls],
                                                       'expected': [c.tag for c in expected_run],
                                                       'errors': len(errors), 'expected_errors': len(fails), 'raised': repr(raised)})
            del self.calls[:]
            raised = None
            try:
                I.validateInvariants(object())
            except Invalid as e:
                raised = e
            ctx.ev()
            if fails:
                upto = expected_run[:expected_run.index(fails[0]) + 1]
                ok = raised is fails[0].error and [c.tag for c in self.calls] == [c.tag for c in upto]
            else:
                ok = raised is None and [c.tag for c in self.calls] == [c.tag for c in expected_run]
            if not ok:
                ctx.violation('invariants-no-list', {'iface': I.__name__, 'ran': [c.tag for c in self.calls], 'raised': repr(raised)})
            if len([x for x in I.__iro__ if self.invs.get(id(x))]) >= 2:
                ctx.count('invariants_from_2plus_ancestors')
            # consumer: verifyObject must check the resolved signature
            for name in ('m', 'n'):
                hits = self.resolve(I, name)
                sigs = [self.sig[id(self.own[id(h)][name])] for h in hits]
                if len(set(sigs)) < 2:
                    continue
                need = {}
                for nm_ in allnames:
                    h = self.resolve(I, nm_)
                    d = self.own[id(h[0])][nm_]
                    need[nm_] = mkfunc(self.sig[id(d)] + 1) if id(d) in self.sig else 1
                good = implementer(I)(type('Good', (object,), dict(need)))
                ctx.ev()
                ctx.count('verify_consumer_checks')
                try:
                    verifyObject(I, good())
                except Invalid as e:
                    ctx.violation('verifyObject-rejects-resolved-signature', {
                        'iface': I.__name__, 'name': name, 'error': str(e)[:300], 'resolved_from': hits[0].__name__},
                        mechanism='namesAndDescriptions_by_bases_not_iro')
                shadow = [s for s in sigs[1:] if s != sigs[0]][0]
                need2 = dict(need)
                need2[name] = mkfunc(shadow + 1)
                bad = implementer(I)(type('Bad', (object,), need2))
                ctx.ev()
                try:
                    verifyObject(I, bad())
                    ctx.violation('verifyObject-accepts-shadowed-signature', {
                        'iface': I.__name__, 'name': name, 'resolved_nargs': sigs[0], 'impl_nargs': shadow},
                        mechanism='namesAndDescriptions_by_bases_not_iro')
                except Invalid:
                    pass

    nontrivial = False

    def rebase(self, among=None):
        rng = self.rng
        if len(self.ifaces) < 2:
            return
        i = rng.randrange(1, len(self.ifaces))
        if among:
            i = rng.choice(among)
        k = min(i, rng.choice([0, 1, 1, 2, 2, 3]))
        nb = tuple(rng.sample(self.ifaces[:i], k)) or (Interface,)
        self.ctx.op('rebase', self.ifaces[i].__name__, nm(nb))
        try:
            self.ifaces[i].__bases__ = nb
        except Exception as e:
            if type(e).__name__ != 'InconsistentResolutionOrderError':
                raise
            return False
        self.ctx.count('rebasings_with_warm_memo')
        return True


class HName(str):
    """An attribute name whose k-th hashing runs an action (a re-basing): foreign code can run at every dictionary
    operation inside an accessor, so a re-basing can overlap a query."""

    def __new__(cls, text, k, action):
        self = str.__new__(cls, text)
        self.k, self.n, self.action = k, 0, action
        return self

    def __hash__(self):
        self.n += 1
        if self.n == self.k:
            self.action()
        return str.__hash__(self)

    __eq__ = str.__eq__


def overlapping_rebase(w):
    """A re-basing of the queried interface or of one of its ancestors happens *while* an accessor runs.  What that
    interrupted call returns is not judged; afterwards everything must follow the new bases (no answer found along
    the old resolution order may have been memoised)."""
    rng, ctx = w.rng, w.ctx
    cands = [I for I in w.ifaces if len(I.__iro__) > 2]
    if not cands:
        return
    I = rng.choice(cands)
    if rng.random() < 0.5:
        for name in NAMES:
            I.get(name)                 # warm memo
    anc = [w.ifaces.index(x) for x in I.__iro__ if x in w.ifaces and w.ifaces.index(x) > 0]
    done = []

    def act():
        if not done:
            done.append(w.rebase(among=anc))
    k = rng.randint(1, 6)
    name = HName(rng.choice(NAMES), k, act)
    acc = rng.choice(['get', 'getitem', 'in', 'queryDescriptionFor'])
    ctx.op('overlapping-rebase', I.__name__, str(name), k, acc)
    try:
        if acc == 'get':
            I.get(name)
        elif acc == 'getitem':
            I[name]
        elif acc == 'in':
            name in I
        else:
            I.queryDescriptionFor(name)
    except KeyError:
        pass
    if done and done[0] is True:
        ctx.count('rebasings_overlapping_a_query')
        w.check('after-overlapping-rebase')


def run_case(ctx, rng, job):
    w = World(ctx, rng, job['tier'])
    w.check('cold')
    w.check('warm')
    for _ in range(rng.randint(1, 8 if w.big else 4)):
        if rng.random() < 0.15:
            if w.reload_twin():
                w.check('after-twin-swap')
            continue
        if rng.random() < 0.2:
            overlapping_rebase(w)
            continue
        if rng.random() < 0.25 and w.ifaces:
            # an ancestor gets another tagged value, or one more invariant, after its descendants have been asked already
            I = rng.choice(w.ifaces)
            if rng.random() < 0.6:
                t = rng.choice(TAGS)
                v = ('late', len(ctx.log), t)
                I.setTaggedValue(t, v)
                w.tags[id(I)][t] = v
                ctx.op('late-tag', I.__name__, t)
            else:
                inv = Inv(('late', len(ctx.log)), rng.random() < 0.3, w.calls)
                cur = list(w.invs[id(I)]) + [inv]
                I.setTaggedValue('invariants', list(cur))
                w.invs[id(I)] = cur
                ctx.op('late-invariant', I.__name__)
            ctx.count('definitions_added_after_the_first_query')
            w.check('after-late-definition')
            continue
        if w.rebase() is False:
            break
        w.check('after-rebase')
    w.check('final')
    ctx.shape(tuple((nm(I.__bases__), tuple(sorted(w.own[id(I)])), tuple(sorted(w.tags[id(I)]))) for I in w.ifaces),
              nontrivial=w.nontrivial)
    ctx.count('worlds')
    if ctx.case < 2:
        ctx.sample({'mode': ctx.mode, 'history': [list(map(str, r)) for r in ctx.log[:20]]})
