"""Engine ``algebra``: C20 declaration algebra laws (DESIGN 3.20)."""
from zope.interface import (
    Interface, alsoProvides, classImplements, classImplementsFirst, classImplementsOnly,
    directlyProvidedBy, directlyProvides, implementedBy, implementer, noLongerProvides, providedBy,
)
from zope.interface.declarations import Declaration
from zope.interface.interface import InterfaceClass

from zmon import util
from zmon.util import nm


def ext(i, j):
    """i is j or i extends j (by reachability over current bases)."""
    return i is j or id(j) in util.reach(i, util.spec_bases)[0] or j is Interface


def dedup(items):
    out = []
    for x in items:
        if not any(x is y for y in out):
            out.append(x)
    return out


def nest(rng, items, depth=0):
    """Wrap items into arbitrarily nested argument sequences; returns (args, maxdepth)."""
    out, md = [], depth
    i = 0
    while i < len(items):
        r = rng.random()
        if r < 0.15 and depth < 3:
            k = rng.randint(1, min(3, len(items) - i))
            sub, d = nest(rng, items[i:i + k], depth + 1)
            out.append(tuple(sub) if rng.random() < 0.5 else list(sub))
            md = max(md, d)
            i += k
        elif r < 0.25:
            k = rng.randint(1, min(2, len(items) - i))
            out.append(Declaration(*items[i:i + k]))
            md = max(md, depth + 1)
            i += k
        else:
            out.append(items[i])
            i += 1
    return out, md


def expected_add(la, lb):
    """Returns (union list, front-required ids, back-required ids, free ids)."""
    seen = list(la)
    front, back, free = [], [], []
    new = []
    for i in lb:
        if any(i is x for x in seen):
            continue
        seen.append(i)
        if any(i is not x and ext(i, x) for x in la):
            front.append(i)
        elif any(i is not x and ext(i, x) for x in new):
            free.append(i)
        else:
            back.append(i)
        new.append(i)
    return seen, front, back, free


def run_case(ctx, rng, job):
    big = job['tier'] == 'thorough'
    ifs = util.gen_iface_dag(rng, rng.randint(3, 12 if big else 8), maxb=2)
    # a few classes whose specifications can be operands
    classes = []
    cls_expected = {}
    for k in range(rng.randint(0, 3)):
        bases = tuple(rng.sample(classes, min(len(classes), rng.choice([0, 1, 1, 2]))))
        try:
            c = type('K%d' % k, bases or (object,), {})
        except TypeError:
            continue
        decl = dedup(rng.sample(ifs, rng.randint(0, min(3, len(ifs)))))
        inherited = dedup([i for b in bases for i in cls_expected[b]])
        kept = [i for i in decl if not any(ext(x, i) for x in inherited)]
        implementer(*decl)(c)
        classes.append(c)
        cls_expected[c] = dedup(kept + inherited)
        got = list(implementedBy(c))
        ctx.ev()
        if not (len(got) == len(cls_expected[c]) and all(a is b for a, b in zip(got, cls_expected[c]))):
            ctx.violation('class-spec-iteration', {'cls': c.__name__, 'got': nm(got), 'expected': nm(cls_expected[c])})
        # further declarations on the same class, one after the other (before any subclass exists): what was declared
        # keeps its place, a new interface goes in front when it extends something declared already (so does everything
        # given to classImplementsFirst), behind otherwise; what is implied already is left out; the *only* form
        # starts over and cuts the inherited part off
        declared = list(kept)
        only = False
        for _step in range(rng.choice([0, 0, 1, 2, 3])):
            how = rng.choice(['classImplements', 'classImplements', 'classImplementsFirst', 'classImplementsOnly'])
            new = dedup(rng.sample(ifs, rng.randint(1, min(3, len(ifs)))))
            cur = dedup(declared + ([] if only else inherited))

            def implied(x):
                return any(ext(y, x) for y in cur)
            if how == 'classImplementsOnly':
                classImplementsOnly(c, *new)
                declared, only = list(new), True
            elif how == 'classImplementsFirst':
                classImplementsFirst(c, new[0])
                new = new[:1]
                declared = dedup([x for x in new if not implied(x)] + declared)
            else:
                classImplements(c, *new)
                front = [x for x in new if any(x is not d and ext(x, d) for d in declared)]
                back = [x for x in new if not any(x is y for y in front)]
                declared = dedup([x for x in front if not implied(x)] + declared + [x for x in back if not implied(x)])
            cls_expected[c] = dedup(declared + ([] if only else inherited))
            got = list(implementedBy(c))
            ctx.ev()
            ctx.count('class_spec_lists_after_further_declarations[%s]' % how)
            if not (len(got) == len(cls_expected[c]) and all(a is b for a, b in zip(got, cls_expected[c]))):
                ctx.violation('class-spec-iteration', {'cls': c.__name__, 'after': how, 'declared_now': nm(new),
                                                       'got': nm(got), 'expected': nm(cls_expected[c])})
    decls = []
    for d in range(rng.randint(4, 9 if big else 7)):
        items = [rng.choice(ifs) for _ in range(rng.randint(0, 5))]
        flat = dedup(items)
        depth = 0
        args, depth = nest(rng, items)
        if classes and rng.random() < 0.3:
            c = rng.choice(classes)
            pos = rng.randint(0, len(args))
            args.insert(pos, implementedBy(c))
            # expected list: flatten with the class spec's list in place
            before_n = sum(1 for _ in util_flatten(args[:pos]))
            flat = dedup(list(util_flatten(args[:pos])) + cls_expected[c] + list(util_flatten(args[pos + 1:])))
        if rng.random() < 0.35:
            # one-shot iterables (generators, iter(), map()) where a tuple or list could stand: they can be walked once
            def oneshot(a):
                k = rng.randrange(3)
                return (x for x in a) if k == 0 else iter(list(a)) if k == 1 else map(lambda x: x, a)
            n_wrapped = 0
            for ai, a in enumerate(args):
                if isinstance(a, (tuple, list)) and rng.random() < 0.6:
                    args[ai] = oneshot(a)
                    n_wrapped += 1
            if not n_wrapped and args and rng.random() < 0.5:
                # ... or the whole argument list as a single lazily produced argument
                args = [oneshot(list(args))]
                n_wrapped = 1
            ctx.count('declarations_built_from_one_shot_iterables', int(n_wrapped > 0))
        D = Declaration(*args)
        decls.append((D, flat, depth))
        ctx.op('decl', nm(flat), depth)
    # the shared empty declaration (what directlyProvidedBy returns for an object without declarations) and a
    # freshly built empty one are operands too
    decls.append((directlyProvidedBy(object()), [], 0))
    decls.append((Declaration(), [], 0))
    singles = [(i, [i], 0) for i in rng.sample(ifs, min(2, len(ifs)))]
    # an interface defined again under the same name and module (a reloaded module): equal to the original, another
    # object.  To the library they are one interface: membership and subtraction treat them alike.
    orig = rng.choice(ifs)
    twin = InterfaceClass(orig.__name__, (Interface,), {}, __module__=orig.__module__)
    for A, la, da in decls:
        ctx.ev(2)
        ctx.count('equal_twin_operands')
        exp_in = any(x is orig for x in la)
        if (twin in A) != exp_in:
            ctx.violation('membership-of-equal-twin', {'decl': nm(la), 'twin_of': nm(orig), 'got': twin in A})
        exp_sub = [i for i in la if not ext(i, orig)]
        got = list(A - twin)
        if not (len(got) == len(exp_sub) and all(x is y for x, y in zip(got, exp_sub))):
            ctx.violation('subtraction-of-equal-twin', {'A': nm(la), 'twin_of': nm(orig), 'got': nm(got), 'expected': nm(exp_sub)})
    related_pairs = 0
    for A, la, da in decls:
        ctx.ev()
        ctx.count('declarations')
        got = list(A)
        if not (len(got) == len(la) and all(x is y for x, y in zip(got, la))):
            ctx.violation('iteration', {'got': nm(got), 'expected': nm(la)})
        for i in ifs:
            ctx.ev()
            if (i in A) != any(i is x for x in la):
                ctx.violation('membership', {'iface': nm(i), 'decl': nm(la), 'got': i in A})
        clo = {Interface}
        for x in la:
            clo.add(x)
            clo.update(util.reach(x, util.spec_bases)[1])
        fl = list(A.flattened())
        ctx.ev()
        if set(fl) != clo or len(fl) != len(set(fl)):
            ctx.violation('flattened-set', {'decl': nm(la), 'got': nm(fl), 'expected': sorted(map(nm, clo))})
        if not all(x is y for x, y in zip(fl, A.__iro__)) or len(fl) != len(A.__iro__):
            ctx.violation('flattened-not-iro', {'decl': nm(la)})
        # valid linearization: every interface before each of its bases
        pos = {id(x): n for n, x in enumerate(fl)}
        for x in fl:
            for b in util.spec_bases(x):
                if pos[id(b)] < pos[id(x)]:
                    ctx.violation('flattened-order', {'decl': nm(la), 'got': nm(fl), 'iface': nm(x), 'base': nm(b)})
        for B, lb, db in decls + singles:
            ctx.ev()
            ctx.count('pairs')
            rel_ab = any(a is not b and ext(a, b) and b is not Interface for a in la for b in lb)
            rel_ba = any(a is not b and ext(b, a) and a is not Interface for a in la for b in lb)
            if rel_ab:
                ctx.count('pairs_A_extends_B')
            if rel_ba:
                ctx.count('pairs_B_extends_A')
            if rel_ab or rel_ba:
                related_pairs += 1
            exp_sub = [i for i in la if not any(ext(i, j) for j in lb)]
            diff = A - B
            got = list(diff)
            if not (len(got) == len(exp_sub) and all(x is y for x, y in zip(got, exp_sub))):
                ctx.violation('subtraction', {'A': nm(la), 'B': nm(lb), 'got': nm(got), 'expected': nm(exp_sub)})
            if not isinstance(diff, Declaration) or any((i in diff) != any(i is x for x in exp_sub) for i in ifs):
                ctx.violation('difference-is-not-a-declaration-of-those', {'A': nm(la), 'B': nm(lb), 'type': type(diff).__name__})
            union, front, back, free = expected_add(la, lb)
            try:
                total = A + B
                got = list(total)
            except Exception as e:
                if type(e).__name__ == 'InconsistentResolutionOrderError':
                    ctx.count('add_strict_errors')
                    continue
                raise
            ok = len(got) == len(union) and {id(x) for x in got} == {id(x) for x in union}
            why = 'set'
            if ok and la:
                gi = [n for n, x in enumerate(got) if any(x is y for y in la)]
                # A contiguous and in A's order
                ok = gi == list(range(gi[0], gi[0] + len(la))) and all(got[gi[0] + k] is la[k] for k in range(len(la)))
                why = 'A-order'
                if ok:
                    a0, a1 = gi[0], gi[-1]
                    gpos = {id(x): n for n, x in enumerate(got)}
                    for x in front:
                        if gpos[id(x)] > a0:
                            ok, why = False, 'front'
                    for x in back:
                        if gpos[id(x)] < a1:
                            ok, why = False, 'back'
                    # B's relative order inside each side
                    for side in ([x for x in got[:a0]], [x for x in got[a1 + 1:]]):
                        order = [n for x in side for n, y in enumerate(lb) if x is y]
                        if order != sorted(order):
                            ok, why = False, 'B-order'
            elif ok:
                # A empty: nothing anchors front/back; each group keeps B's order
                for grp in (back, free):
                    order = [n for x in got for n, y in enumerate(grp) if x is y]
                    if order != sorted(order):
                        ok, why = False, 'empty-A-order'
            if ok and (not isinstance(total, Declaration) or any((i in total) != any(i is x for x in union) for i in ifs)):
                ok, why = False, 'sum is not a declaration of exactly those (type %s)' % type(total).__name__
            if not ok:
                ctx.violation('addition', {'A': nm(la), 'B': nm(lb), 'got': nm(got), 'why': why,
                                           'front': nm(front), 'back': nm(back), 'free': nm(free)})
            if free:
                ctx.count('add_free_elements')
            # operands unchanged
            ga, gb = list(A.interfaces()), list(B.interfaces())
            if not (len(ga) == len(la) and all(x is y for x, y in zip(ga, la))
                    and len(gb) == len(lb) and all(x is y for x, y in zip(gb, lb))):
                ctx.violation('operand-modified', {'A': nm(la), 'B': nm(lb)})
        ctx.shape(('decl', len(la), da, tuple(sorted(len(util.reach(x, util.spec_bases)[1]) for x in la))),
                  nontrivial=related_pairs > 0)
    # users of the algebra: directlyProvidedBy / alsoProvides / noLongerProvides
    P = type('Plain', (object,), {})
    for _ in range(3):
        o = P()
        la = dedup(rng.sample(ifs, rng.randint(1, min(4, len(ifs)))))
        if classes and rng.random() < 0.4:
            # a class's implementation specification among the directly provided "interfaces": listed through its
            # interfaces, in place
            kc = rng.choice(classes)
            pos = rng.randint(0, len(la))
            directlyProvides(o, *(la[:pos] + [implementedBy(kc)] + la[pos:]))
            la = dedup(la[:pos] + cls_expected[kc] + la[pos:])
            ctx.count('direct_declarations_with_class_specification')
        else:
            directlyProvides(o, *la)
        cur = [i for i in la if i is not Interface]
        got = list(directlyProvidedBy(o))
        ctx.ev()
        if not (len(got) == len(cur) and all(x is y for x, y in zip(got, cur))):
            ctx.violation('directlyProvidedBy', {'declared': nm(la), 'got': nm(got)})
        extra = dedup(rng.sample(ifs, rng.randint(0, 2)))
        alsoProvides(o, *extra)
        union, front, back, free = expected_add(cur, [x for x in extra if x is not Interface])
        got = list(directlyProvidedBy(o))
        ctx.ev()
        if {id(x) for x in got} != {id(x) for x in union}:
            ctx.violation('alsoProvides-set', {'had': nm(cur), 'added': nm(extra), 'got': nm(got)})
        j = rng.choice(ifs)
        cur = got
        try:
            noLongerProvides(o, j)
        except ValueError:
            pass
        exp = [i for i in cur if not ext(i, j)]
        got = list(directlyProvidedBy(o))
        ctx.ev()
        ctx.count('noLongerProvides')
        if not (len(got) == len(exp) and all(x is y for x, y in zip(got, exp))):
            ctx.violation('noLongerProvides-keeps-subinterfaces', {'had': nm(cur), 'removed': nm(j), 'got': nm(got), 'expected': nm(exp)})
    # what an object provides, handed over as an argument (``Declaration(providedBy(y))``, ``directlyProvides(x, providedBy(y))``):
    # an object's declaration is flattened in place, to the interfaces it lists at that moment; a later declaration on
    # y's class does not show in what was built from it
    if len(ifs) >= 3:
        qa, qb, qc = rng.sample(ifs, 3)
        KT = type('KTemplate', (), {})
        classImplements(KT, qa)
        y = KT()
        directlyProvides(y, qb)
        src_list = list(providedBy(y))
        d1 = Declaration(providedBy(y))
        x1 = type('KOther', (), {})()
        directlyProvides(x1, providedBy(y))
        l1, l2 = list(d1), list(directlyProvidedBy(x1))
        classImplements(KT, qc)
        ctx.ev(2)
        ctx.count('declarations_built_from_what_an_object_provides')
        for label, before_, now in (('Declaration(providedBy(y))', l1, list(d1)), ('directlyProvides(x, providedBy(y))', l2, list(directlyProvidedBy(x1)))):
            if not (len(before_) == len(src_list) and all(a is b for a, b in zip(before_, src_list))):
                ctx.violation('declaration-from-provided-not-flattened-in-place', {'form': label, 'got': nm(before_), 'expected': nm(src_list)})
            if not (len(now) == len(before_) and all(a is b for a, b in zip(now, before_))):
                ctx.violation('declaration-follows-a-later-class-declaration', {'form': label, 'was': nm(before_), 'now': nm(now)})
    # sums and differences of a *class's* specification are values of their own: a later declaration on the class does not
    # show in them (nor in anything they were handed to), even when the operation removed or added nothing
    if len(ifs) >= 3:
        ra, rb_, rc = rng.sample(ifs, 3)
        KL = type('KLive', (), {})
        classImplements(KL, ra)
        spec = implementedBy(KL)
        unrelated = [i for i in ifs if not ext(ra, i) and not ext(i, ra)]
        if unrelated:
            d_sub = spec - unrelated[0]                 # removes nothing
            d_add = spec + Declaration()                # adds nothing
            holder = type('KHolder', (), {})()
            directlyProvides(holder, d_sub)
            was = (list(d_sub), list(d_add), list(directlyProvidedBy(holder)))
            late = [i for i in ifs if not any(i is x for x in was[0])]
            if late:
                classImplements(KL, late[0])
                now = (list(d_sub), list(d_add), list(directlyProvidedBy(holder)))
                ctx.ev(3)
                ctx.count('results_of_operations_on_a_live_class_specification')
                for label, w_, n_ in zip(('A - B (nothing removed)', 'A + empty', 'what the difference was handed to'), was, now):
                    if len(w_) != len(n_) or any(a is not b for a, b in zip(w_, n_)):
                        ctx.violation('result-follows-a-later-declaration-on-the-operand', {'what': label, 'was': nm(w_), 'now': nm(n_)})
    # interfaces handed over through transparent proxies (objects that forward everything and say they are of the
    # wrapped interface's class, as security and location proxies do): one interface each, wherever an interface goes
    if len(ifs) >= 3:
        pa, pb, pc = rng.sample(ifs, 3)
        forms = [('Declaration(a, (proxy(b),))', lambda: Declaration(pa, (Proxy(pb),)), [pa, pb]),
                 ('Declaration(proxy(a), b)', lambda: Declaration(Proxy(pa), pb), [pa, pb]),
                 ('Declaration([proxy(a)], proxy(c))', lambda: Declaration([Proxy(pa)], Proxy(pc)), [pa, pc])]
        for label, mk, want in forms:
            ctx.ev()
            ctx.count('declarations_from_proxied_interfaces')
            try:
                got = list(mk())
                ok = len(got) == len(want) and all(g == w_ for g, w_ in zip(got, want)) and all((w_ in mk()) for w_ in want)
                got = nm([getattr(g, '__name__', '?') and g for g in got]) if not ok else None
            except BaseException as e:      # noqa (RecursionError included)
                ok, got = False, type(e).__name__
            if not ok:
                ctx.violation('declaration-from-proxied-interfaces', {'form': label, 'got': str(got), 'expected': nm(want)})
        o2 = type('Kp', (), {})()
        ctx.ev()
        try:
            alsoProvides(o2, Proxy(pa))
            ok = bool(pa.providedBy(o2)) and any(x == pa for x in directlyProvidedBy(o2))
        except BaseException as e:          # noqa
            ok = False
        if not ok:
            ctx.violation('alsoProvides-with-a-proxied-interface', {'iface': nm(pa)})
    if ctx.case < 2:
        ctx.sample({'mode': ctx.mode, 'declarations': [nm(l) for _, l, _ in decls],
                    'interfaces': {nm(i): nm(i.__bases__) for i in ifs}})


def _w(p):
    return object.__getattribute__(p, '_wrapped')


class Proxy:
    """Transparent proxy: forwards everything, says it is of the wrapped object's class."""

    __slots__ = ('_wrapped',)

    def __init__(self, wrapped):
        object.__setattr__(self, '_wrapped', wrapped)

    @property
    def __class__(self):
        return type(_w(self))

    def __getattr__(self, name):
        return getattr(_w(self), name)

    def __setattr__(self, name, value):
        setattr(_w(self), name, value)

    def __hash__(self):
        return hash(_w(self))

    def __eq__(self, other):
        if type(other) is Proxy:
            other = _w(other)
        return _w(self) == other

    def __ne__(self, other):
        return not self.__eq__(other)

    def __iter__(self):
        return iter(_w(self))

    def __contains__(self, item):
        return item in _w(self)

    def __call__(self, *args, **kw):
        return _w(self)(*args, **kw)


def util_flatten(args):
    for a in args:
        if isinstance(a, (tuple, list)):
            yield from util_flatten(a)
        elif isinstance(a, Declaration) and not hasattr(a, 'inherit'):
            yield from a.__bases__
        else:
            yield a
