"""Engine ``pickling``: C13 specifications pickle by reference (DESIGN 3.13).

Each case writes a module file with generated interfaces and classes in every
declaration shape, imports it, round-trips every specification through every
pickle protocol in this process and hands the bytes to a second process (one
per worker, at teardown) that imports the same module and unpickles them."""
import importlib
import os
import pickle
import pickletools
import shutil
import subprocess
import sys
import tempfile

from zope.interface import (
    Interface, alsoProvides, directlyProvides, implementedBy, noLongerProvides,
    providedBy,
)
from zope.interface.declarations import ClassProvides

from zmon.util import nm

_dir = None
_manifest = []
# importable built-in / extension types nobody else declares anything on
BUILTINS = [('frozenset', ''), ('bytearray', ''), ('complex', ''), ('memoryview', ''), ('array.array', 'import array'),
            ('collections.deque', 'import collections'), ('slice', ''), ('range', '')]
SENT_ATTR = 'zmonSentinelAttr'
SENT_DOC = 'zmonSentinelDoc'


def setup(ctx, job):
    global _dir
    _dir = tempfile.mkdtemp(prefix='zmon-pickle-')
    sys.path.insert(0, _dir)


def gen_source(rng, nif, ncls):
    lines = ['from zope.interface import (Interface, Attribute, implementer, implementer_only, provider,',
             '    classImplements, classImplementsOnly, classImplementsFirst, directlyProvides)', '']
    ifs = []
    for i in range(nif):
        k = min(len(ifs), rng.choice([0, 1, 1, 2]))
        bases = rng.sample(ifs, k)
        lines.append('class I%d(%s):' % (i, ', '.join(bases) or 'Interface'))
        lines.append('    """%s%d"""' % (SENT_DOC, i))
        lines.append('    %s%d = Attribute("%s attr")' % (SENT_ATTR, i, SENT_DOC))
        lines.append('    def %sMeth%d(a, b=1): "%s meth"' % (SENT_ATTR, i, SENT_DOC))
        lines.append('')
        ifs.append('I%d' % i)
    classes = []
    shapes = {}
    post = []
    mirror = {}
    builtin = None
    for c in range(ncls):
        k = min(len(classes), rng.choice([0, 0, 1, 1, 2]))
        bases = rng.sample(classes, k)
        try:
            mirror['K%d' % c] = type('M', tuple(mirror[b] for b in bases) or (object,), {})
        except TypeError:
            bases = bases[:1]
            mirror['K%d' % c] = type('M', tuple(mirror[b] for b in bases) or (object,), {})
        shape = rng.choice(['plain', 'decorated', 'decorated', 'only', 'only_after', 'first', 'narrow_then_extend',
                            'provider', 'provider_decorated', 'legacy_attr', 'legacy_attr_single'])
        sel = rng.sample(ifs, rng.randint(1, min(3, len(ifs))))
        name = 'K%d' % c
        if shape in ('decorated', 'provider_decorated'):
            lines.append('@implementer(%s)' % ', '.join(sel))
        if shape == 'only':
            lines.append('@implementer_only(%s)' % ', '.join(sel))
        if shape in ('provider', 'provider_decorated'):
            lines.insert(len(lines) - (1 if shape == 'provider_decorated' else 0),
                         '@provider(%s)' % ', '.join(rng.sample(ifs, rng.randint(1, min(2, len(ifs))))))
        lines.append('class %s(%s):' % (name, ', '.join(bases) or 'object'))
        if shape == 'legacy_attr':
            lines.append('    __implemented__ = (%s,)' % ', '.join(sel))      # old-style declaration
        elif shape == 'legacy_attr_single':
            lines.append('    __implemented__ = %s' % sel[0])
        else:
            lines.append('    pass')
        lines.append('')
        if shape == 'only_after':
            post.append('classImplementsOnly(%s, %s)' % (name, ', '.join(sel)))
        elif shape == 'first':
            post.append('classImplementsFirst(%s, %s)' % (name, sel[0]))
        elif shape == 'narrow_then_extend':
            post.append('classImplementsOnly(%s, %s)' % (name, sel[0]))
            post.append('classImplements(%s, %s)' % (name, ', '.join(sel)))
        classes.append(name)
        shapes[name] = shape
    if rng.random() < 0.5 and ifs:
        # a class that is false in a boolean context (a metaclass with __len__: registries of members, enumerations)
        name = 'K%d' % len(classes)
        shape = rng.choice(['decorated', 'only', 'plain', 'only_after'])
        lines.append('class FalsyMeta(type):')
        lines.append('    def __len__(cls): return 0')
        lines.append('')
        if shape == 'decorated':
            lines.append('@implementer(%s)' % ifs[0])
        elif shape == 'only':
            lines.append('@implementer_only(%s)' % ifs[0])
        lines.append('class %s(metaclass=FalsyMeta):' % name)
        lines.append('    pass')
        lines.append('')
        if shape == 'only_after':
            post.append('classImplementsOnly(%s, %s)' % (name, ifs[-1]))
        classes.append(name)
        shapes[name] = 'falsy_class_' + shape
        mirror[name] = type('M', (object,), {})
    lines.extend(post)
    # a built-in / extension type declared with an *only* form (its specification lives in a side table,
    # the type object cannot carry attributes); one type per generated module, chosen by the caller
    lines.append('BUILTIN_SHAPE = None')
    try:
        compile('\n'.join(lines), 'gen', 'exec')
    except SyntaxError:
        raise
    return '\n'.join(lines) + '\n', ifs, classes, shapes


def flat(spec):
    return [(x.__name__, x.__module__) for x in spec.flattened()]


ALLOWED_OPCODES = {'PROTO', 'FRAME', 'STOP', 'GLOBAL', 'STACK_GLOBAL', 'SHORT_BINUNICODE', 'BINUNICODE', 'BINUNICODE8', 'UNICODE',
                   'STRING', 'BINSTRING', 'SHORT_BINSTRING', 'MEMOIZE', 'PUT', 'BINPUT', 'LONG_BINPUT', 'GET', 'BINGET', 'LONG_BINGET',
                   'MARK', 'TUPLE', 'TUPLE1', 'TUPLE2', 'TUPLE3', 'EMPTY_TUPLE', 'REDUCE', 'POP', 'POP_MARK'}


def names_only(data, modname, ctx, what):
    """The pickle may reference globals by name; nothing of a definition."""
    if SENT_ATTR.encode() in data or SENT_DOC.encode() in data:
        ctx.violation('pickle-contains-definition', {'what': what})
    carrier = what.startswith('instance of')
    for op, arg, pos in pickletools.genops(data):
        if op.name in ('BINBYTES', 'SHORT_BINBYTES', 'BINBYTES8', 'BYTEARRAY8'):
            ctx.violation('pickle-contains-bytes-blob', {'what': what, 'opcode': op.name})
        elif not carrier and op.name not in ALLOWED_OPCODES:
            # a specification travels as references to globals and a call with those as arguments: no state, no containers
            ctx.violation('pickle-contains-state', {'what': what, 'opcode': op.name})
            break


def run_case(ctx, rng, job):
    big = job['tier'] == 'thorough'
    try:
        src, ifs, classes, shapes = gen_source(rng, rng.randint(2, 7 if big else 5), rng.randint(2, 8 if big else 6))
    except Exception as e:
        if type(e).__name__ == 'InconsistentResolutionOrderError':
            return
        raise
    modname = 'zmonpk_%d_%s_%d_%d' % (os.getpid(), job['mode'], job['shard'], ctx.case)
    bname = None
    if rng.random() < 0.6:
        bname, bimport = BUILTINS[(job['shard'] * 31 + ctx.case) % len(BUILTINS)]
        how = rng.choice(['only', 'only', 'plain'])
        src += '%s\n' % bimport
        if how == 'only':
            src += 'classImplementsOnly(%s, %s)\nBUILTIN_SHAPE = "only"\n' % (bname, ifs[0])
        else:
            src += 'classImplements(%s, %s)\nBUILTIN_SHAPE = "plain"\n' % (bname, ifs[0])
    with open(os.path.join(_dir, modname + '.py'), 'w') as f:
        f.write(src)
    importlib.invalidate_caches()
    mod = importlib.import_module(modname)
    ctx.op('module', modname, shapes)
    entries = []          # for the second process
    protos = list(range(0, pickle.HIGHEST_PROTOCOL + 1))
    # class-level provides-declarations changed after the fact, in one or several steps
    cshape = {}
    for cname in classes:
        cls = getattr(mod, cname)
        how = rng.choice(['asis', 'asis', 'direct', 'also', 'also_twice', 'nolonger'])
        sel = [getattr(mod, i) for i in rng.sample(ifs, rng.randint(1, min(3, len(ifs))))]
        if how == 'direct':
            directlyProvides(cls, *sel)
        elif how == 'also':
            alsoProvides(cls, *sel)
        elif how == 'also_twice':
            alsoProvides(cls, sel[0])
            alsoProvides(cls, *sel)
        elif how == 'nolonger':
            alsoProvides(cls, *sel)
            try:
                noLongerProvides(cls, sel[0])
            except ValueError:
                pass
        cshape[cname] = ('provider+' if 'provider' in shapes[cname] else '') + how
        if how != 'asis':
            ctx.op('class-provides', cname, how, nm(sel))

    def rt(x, p):
        try:
            data = pickle.dumps(x, p)
            return pickle.loads(data), data
        except Exception as e:
            # (raised inside the pickle machinery, not in a frame of the library: still the library's doing)
            ctx.violation('pickle-roundtrip-raised', {'object': repr(x)[:200], 'proto': p, 'error': repr(e)[:300]})

    for p in protos:
        for iname in ifs:
            I = getattr(mod, iname)
            u, data = rt(I, p)
            ctx.ev()
            ctx.count('roundtrips[interface]')
            if u is not I or u != I or hash(u) != hash(I):
                ctx.violation('interface-not-identical', {'iface': iname, 'proto': p})
            names_only(data, modname, ctx, 'interface ' + iname)
            entries.append(('iface', iname, p, data, None))
        for cname in classes:
            cls = getattr(mod, cname)
            spec = implementedBy(cls)
            u, data = rt(spec, p)
            ctx.ev()
            ctx.count('roundtrips[class-spec:%s]' % shapes[cname])
            if u is not spec:
                only = spec.inherit is None
                ctx.violation('class-spec-not-identical', {'cls': cname, 'shape': shapes[cname], 'proto': p,
                                                           'unpickled': repr(u), 'original': repr(spec)},
                              mechanism='implements_only_reduce' if only else None)
            if u != spec or hash(u) != hash(spec):
                ctx.violation('class-spec-not-equal', {'cls': cname})
            names_only(data, modname, ctx, 'class spec ' + cname)
            entries.append(('impl', cname, p, data, flat(spec)))
            cp = cls.__provides__
            u, data = rt(cp, p)
            ctx.ev()
            ctx.count('roundtrips[class-provides:%s]' % ('provider' if 'provider' in shapes[cname] else 'plain'))
            ctx.count('roundtrips[class-provides-history:%s]' % cshape[cname])
            if flat(u) != flat(cp) or list(u) != list(cp) or not isinstance(u, ClassProvides):
                ctx.violation('class-provides-differs', {'cls': cname, 'proto': p, 'got': flat(u), 'expected': flat(cp)})
            if u is cp and (u != cp or hash(u) != hash(cp)):
                ctx.violation('class-provides-not-equal', {'cls': cname})
            names_only(data, modname, ctx, 'class provides ' + cname)
            entries.append(('cprov', cname, p, data, flat(cp)))
    if bname is not None:
        import builtins
        btype = eval(bname, {'array': __import__('array'), 'collections': __import__('collections'), **vars(builtins)})
        spec = implementedBy(btype)
        for p in protos:
            u, data = rt(spec, p)
            ctx.ev()
            ctx.count('roundtrips[builtin-spec:%s]' % mod.BUILTIN_SHAPE)
            if u is not spec:
                ctx.violation('builtin-class-spec-not-identical', {'type': bname, 'shape': mod.BUILTIN_SHAPE, 'proto': p,
                                                                   'unpickled': repr(u), 'original': repr(spec)})
            names_only(data, modname, ctx, 'builtin spec ' + bname)
    # instances: direct, also, after noLongerProvides; declarations and carriers
    for n in range(rng.randint(2, 5)):
        cname = rng.choice(classes)
        cls = getattr(mod, cname)
        o = cls()
        how = rng.choice(['direct', 'also', 'nolonger', 'none'])
        sel = [getattr(mod, i) for i in rng.sample(ifs, rng.randint(1, min(3, len(ifs))))]
        if how == 'direct':
            directlyProvides(o, *sel)
        elif how == 'also':
            directlyProvides(o, sel[0])
            alsoProvides(o, *sel[1:])
        elif how == 'nolonger':
            directlyProvides(o, *sel)
            try:
                noLongerProvides(o, sel[0])
            except ValueError:
                pass
        ctx.op('instance', cname, how, nm(sel))
        for p in protos:
            if how != 'none':
                pr = o.__provides__
                u, data = rt(pr, p)
                ctx.ev()
                ctx.count('roundtrips[instance-provides:%s]' % how)
                if flat(u) != flat(pr) or list(u) != list(pr):
                    ctx.violation('instance-provides-differs', {'cls': cname, 'how': how, 'proto': p,
                                                                'got': flat(u), 'expected': flat(pr)})
                if u is pr:
                    ctx.count('instance_provides_identical')
                    if u != pr or hash(u) != hash(pr):
                        ctx.violation('instance-provides-not-equal', {'cls': cname})
                names_only(data, modname, ctx, 'instance provides of ' + cname)
                entries.append(('prov', cname, p, data, flat(pr)))
            u, data = rt(o, p)
            ctx.ev()
            ctx.count('roundtrips[carrier:%s]' % how)
            if flat(providedBy(u)) != flat(providedBy(o)) or type(u) is not cls:
                ctx.violation('carrier-provides-differs', {'cls': cname, 'how': how, 'proto': p,
                                                           'got': flat(providedBy(u)), 'expected': flat(providedBy(o))})
            names_only(data, modname, ctx, 'instance of ' + cname)
            entries.append(('obj', cname, p, data, flat(providedBy(o))))
    # pickling x later changes: instance declarations made while the class still implemented an interface, then the
    # class is narrowed; what unpickles must provide what the live object provides now (in-process only: the second
    # process imports the module without these run-time changes)
    from zope.interface import classImplementsOnly
    for cname in classes:
        cls = getattr(mod, cname)
        impl = list(implementedBy(cls))
        others = [getattr(mod, i) for i in ifs if getattr(mod, i) not in impl and not any(x.extends(getattr(mod, i)) for x in impl)]
        if not impl or len(others) < 2 or rng.random() < 0.5:
            continue
        iflag, iextra, irepl = impl[0], others[0], others[1]
        o1, o2, o3 = cls(), cls(), cls()
        directlyProvides(o1, iextra, iflag)       # redundant iflag is stripped while the class implements it
        directlyProvides(o2, iextra)
        classImplementsOnly(cls, irepl)
        directlyProvides(o3, iextra)
        ctx.op('narrow-after-instance-declarations', cname, nm([iflag, iextra, irepl]))
        ctx.count('classes_narrowed_after_instance_declarations')
        for p in protos:
            for label, o in (('o1', o1), ('o2', o2), ('o3', o3)):
                for what, x, live in (('provides', o.__provides__, o.__provides__), ('carrier', o, providedBy(o))):
                    r = rt(x, p)
                    u = r[0]
                    got = flat(u) if what == 'provides' else flat(providedBy(u))
                    ctx.ev()
                    ctx.count('roundtrips[after-class-narrowing:%s]' % what)
                    if got != flat(live):
                        ctx.violation('declaration-differs-after-class-narrowing',
                                      {'cls': cname, 'object': label, 'what': what, 'proto': p, 'got': got, 'expected': flat(live)})
    # interfaces of the other kinds the library ships: the root, interfaces derived from abstract base classes, the
    # interfaces describing the library itself
    if ctx.case == 0:
        from zope.interface.common import collections as zcc, numbers as zcn, mapping as zcm
        from zope.interface import interfaces as zii
        shipped = [Interface, zcc.ISequence, zcc.IMutableMapping, zcn.IIntegral, zcm.IFullMapping, zii.IInterface, zii.IAdapterRegistry,
                   zii.IComponents, zii.IRegistered]
        for I in shipped:
            for p in protos:
                ctx.ev()
                ctx.count('roundtrips[shipped-interface]')
                try:
                    data = pickle.dumps(I, p)
                    u = pickle.loads(data)
                except Exception as e:
                    u, data = e, b''
                if u is not I:
                    ctx.violation('interface-not-identical', {'iface': getattr(I, '__name__', '?'), 'proto': p, 'got': repr(u)[:100]})
                if len(data) > 200:
                    ctx.violation('pickle-contains-definition', {'what': 'shipped interface ' + I.__name__, 'bytes': len(data)})
    # the shared empty declaration comes back as itself
    from zope.interface.declarations import _empty
    from zope.interface import classImplements, directlyProvidedBy
    for p in protos:
        for dumps, loads in ((pickle.dumps, pickle.loads), (pickle._dumps, pickle._loads)):
            ctx.ev()
            ctx.count('roundtrips[empty]')
            try:
                u = loads(dumps(_empty, p))
            except Exception as e:
                u = e
            if u is not _empty:
                ctx.violation('empty-declaration-not-identical', {'proto': p, 'got': repr(u)[:100]})
    # the pure-Python pickler and copy.copy follow the same reduce protocol
    import copy
    for iname in ifs[:2]:
        I = getattr(mod, iname)
        ctx.ev()
        ctx.count('roundtrips[python-pickler]')
        if pickle._loads(pickle._dumps(I, 2)) is not I or copy.copy(I) is not I or copy.deepcopy(I) is not I:
            ctx.violation('interface-not-identical', {'iface': iname, 'how': 'python pickler / copy'})
    for cname in classes[:3]:
        spec = implementedBy(getattr(mod, cname))
        ctx.ev()
        ctx.count('roundtrips[python-pickler]')
        try:
            ok = pickle._loads(pickle._dumps(spec, 2)) is spec and copy.copy(spec) is spec and copy.deepcopy(spec) is spec
        except Exception as e:
            ok = False
        if not ok:
            ctx.violation('class-spec-not-identical', {'cls': cname, 'how': 'python pickler / copy', 'shape': shapes[cname]})
    # a class specification among the interfaces an object (or class) directly provides: the declaration names the class,
    # so it follows later declarations on that class - and so must what was pickled before them
    if len(classes) >= 2 and len(ifs) >= 2:
        for _ in range(2):
            cname, other = rng.sample(classes, 2)
            cls, ocls = getattr(mod, cname), getattr(mod, other)
            o = cls()
            idir = getattr(mod, rng.choice(ifs))
            directlyProvides(o, idir, implementedBy(ocls))
            blobs = [(p, pickle.dumps(o.__provides__, p), pickle.dumps(o, p)) for p in protos]
            twins = [(p, pickle.loads(b1), pickle.loads(b2)) for p, b1, b2 in blobs]
            for p, t1, t2 in twins:
                ctx.ev()
                ctx.count('roundtrips[provides-naming-a-class]')
                if flat(t1) != flat(o.__provides__) or flat(providedBy(t2)) != flat(providedBy(o)):
                    ctx.violation('declaration-naming-a-class-differs', {'cls': cname, 'named': other, 'proto': p, 'when': 'at once',
                                                                         'got': flat(t1), 'expected': flat(o.__provides__)})
            inew = [getattr(mod, i) for i in ifs if getattr(mod, i) not in providedBy(o).flattened()]
            if inew:
                how = rng.choice(['classImplements', 'classImplementsOnly'])
                (classImplements if how == 'classImplements' else classImplementsOnly)(ocls, inew[0])
                ctx.op('later-declaration-on-named-class', other, how, nm(inew[:1]))
                ctx.count('declarations_on_a_named_class_after_pickling')
                for (p, b1, b2), (_, t1, t2) in zip(blobs, twins):
                    ctx.ev(2)
                    exp = flat(providedBy(o))
                    l1, l2 = pickle.loads(b1), pickle.loads(b2)
                    for label, got in (('twin-declaration', [k for k in flat(t1)]), ('twin-object', flat(providedBy(t2))),
                                       ('loaded-later-object', flat(providedBy(l2)))):
                        if label == 'twin-declaration':
                            got, want = flat(t1), flat(o.__provides__)
                        else:
                            want = exp
                        if sorted(got) != sorted(want):
                            ctx.violation('declaration-naming-a-class-differs',
                                          {'cls': cname, 'named': other, 'proto': p, 'when': 'after ' + how, 'what': label,
                                           'got': got, 'expected': want})
                    if sorted(flat(l1)) != sorted(flat(o.__provides__)):
                        ctx.violation('declaration-naming-a-class-differs',
                                      {'cls': cname, 'named': other, 'proto': p, 'when': 'after ' + how, 'what': 'loaded-later-declaration',
                                       'got': flat(l1), 'expected': flat(o.__provides__)})
    # a declaration change interrupted by a dependent that raises: whatever state the class is left in, its
    # specification still pickles by reference
    class Grumpy:
        armed = False

        def changed(self, originally_changed):
            if Grumpy.armed:
                Grumpy.armed = False
                raise RuntimeError('dependent refuses')
    for cname in rng.sample(classes, min(2, len(classes))):
        cls = getattr(mod, cname)
        spec = implementedBy(cls)
        g = Grumpy()
        spec.subscribe(g)
        how = rng.choice(['classImplements', 'classImplementsOnly', 'classImplementsOnly'])
        inew = getattr(mod, rng.choice(ifs))
        Grumpy.armed = True
        try:
            (classImplements if how == 'classImplements' else classImplementsOnly)(cls, inew)
        except RuntimeError:
            ctx.count('declarations_interrupted_by_a_raising_dependent')
        Grumpy.armed = False
        spec.unsubscribe(g)
        spec2 = implementedBy(cls)
        for p in protos:
            ctx.ev()
            ctx.count('roundtrips[after-interrupted-declaration]')
            try:
                u = pickle.loads(pickle.dumps(spec2, p))
            except Exception as e:
                u = e
            if u is not spec2:
                ctx.violation('class-spec-not-identical', {'cls': cname, 'after': 'interrupted ' + how, 'proto': p, 'unpickled': repr(u)[:120]})
        # an ordinary declaration afterwards must not be lost to pickling either
        classImplements(cls, getattr(mod, rng.choice(ifs)))
        spec3 = implementedBy(cls)
        ctx.ev()
        if pickle.loads(pickle.dumps(spec3, 2)) is not spec3:
            ctx.violation('class-spec-not-identical', {'cls': cname, 'after': 'interrupted %s, then classImplements' % how})
    # classes whose metaclass has declarations of its own: what the class directly provides is stored without what the
    # metaclass implied at declaration time; narrowing the metaclass later must show in the unpickled declaration too
    if len(ifs) >= 3:
        i0, i1, i2 = (getattr(mod, i) for i in rng.sample(ifs, 3))
        src_meta = ('from zope.interface import implementer\nfrom %s import *\n'
                    '@implementer(%s)\nclass Meta(type):\n    pass\n\nclass KMeta(metaclass=Meta):\n    pass\n'
                    % (modname, i0.__name__))
        mname = modname + '_meta'
        with open(os.path.join(_dir, mname + '.py'), 'w') as f:
            f.write(src_meta)
        importlib.invalidate_caches()
        mm = importlib.import_module(mname)
        directlyProvides(mm.KMeta, i0, i1)
        for when in ('at once', 'after narrowing the metaclass'):
            for p in protos:
                ctx.ev()
                ctx.count('roundtrips[class-provides-under-a-declaring-metaclass]')
                cp = mm.KMeta.__provides__
                # (as sets: what the metaclass implies by now is left out of the rebuilt declaration's own bases, which can
                #  change the order of the same interfaces - the statement promises the same interfaces, not their order)
                try:
                    u = pickle.loads(pickle.dumps(cp, p))
                    got = flat(u)
                except Exception as e:
                    got = repr(e)
                if isinstance(got, str) or sorted(got) != sorted(flat(cp)):
                    ctx.violation('class-provides-differs', {'cls': 'KMeta', 'when': when, 'proto': p, 'got': got, 'expected': flat(cp)},
                                  mechanism='classprovides_reduce_unstripped')
            classImplementsOnly(mm.Meta, i2)
    _manifest.append((modname, entries))
    ctx.shape(('shapes', tuple(sorted(shapes.values()))), nontrivial=True)
    if ctx.case < 1:
        ctx.sample({'mode': ctx.mode, 'module_source': src[:1500]})


def teardown(ctx, job):
    """Second process: import the same generated modules, unpickle, compare."""
    try:
        if _manifest:
            mf = os.path.join(_dir, 'manifest.pkl')
            with open(mf, 'wb') as f:
                pickle.dump(_manifest, f)
            env = dict(os.environ)
            p = subprocess.run([sys.executable, '-m', 'zmon.engines.pickling_child', _dir, mf],
                               env=env, capture_output=True, text=True, timeout=600)
            if p.returncode != 0:
                raise RuntimeError('pickling child failed: ' + p.stderr[-2000:])
            import json
            res = json.loads(p.stdout.strip().splitlines()[-1])
            ctx.counters['cross_process_loads'] += res['loads']
            ctx.counters['evaluations'] += res['loads']
            for v in res['violations'][:5]:
                ctx.case = v.get('case')
                ctx.violations.append({'kind': 'second-process-' + v['kind'], 'detail': v, 'mechanism': v.get('mechanism'),
                                       'case': v.get('case'), 'log_tail': [], 'log_len': 0})
                ctx.viol_total += 1
    finally:
        shutil.rmtree(_dir, True)
