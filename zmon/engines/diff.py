"""Engine ``diff``: C10 the C accelerator is observationally equivalent to the
Python reference (DESIGN 3.10).  The same seeded API program is run in two
processes (PURE_PYTHON=1 / 0); the driver compares the canonical traces step by
step.  The c side is also run under the sanitizers (thorough)."""
import gc
import hashlib
import operator

from zope.interface import (
    Interface, alsoProvides, classImplements, classImplementsFirst,
    classImplementsOnly, directlyProvidedBy, directlyProvides, implementedBy,
    implementer, noLongerProvides, providedBy,
)
from zope.interface import interface as zi
from zope.interface.adapter import AdapterRegistry, VerifyingAdapterRegistry
from zope.interface.declarations import Declaration, Implements, _empty
from zope.interface.interface import INTERFACE_METHODS, InterfaceClass, Specification


class Val:
    def __init__(self, tag, ret=True):
        self.tag, self.ret = tag, ret

    def __call__(self, *obs):
        if not self.ret:
            return None
        if self.tag % 5 == 0:
            # falsy, but not None: still an adapter
            return [0, '', (), False, 0.0][(self.tag // 5) % 5]
        return ('made', self.tag, tuple(R(o) for o in obs))

    def __repr__(self):
        return 'V%s' % self.tag


class Marker(Exception):
    pass


def R(x, depth=0):
    """Canonical, implementation-independent rendering."""
    if depth > 6:
        return '...'
    try:
        isinstance(x, int)
    except Marker:
        # an object whose __class__ cannot be read (isinstance looks at it)
        return 'obj:%s' % type(x).__dict__.get('zname', '?')
    if x is None or isinstance(x, (bool, int, float)):
        return repr(x)
    if isinstance(x, str):
        return repr(x)
    if isinstance(x, bytes):
        return 'bytes'
    if x is _empty:
        return 'Empty'
    if isinstance(x, InterfaceClass):
        return 'I:%s' % x.__name__
    if isinstance(x, Implements):
        return 'Impl:%s' % str(x.__name__).rsplit('.', 1)[-1]
    if isinstance(x, Specification):
        return '%s[%s]' % (type(x).__name__, ','.join(R(b, depth + 1) for b in x.__bases__))
    if isinstance(x, Val):
        return repr(x)
    if isinstance(x, BaseException):
        if isinstance(x, TypeError) and x.args[:1] == ('Could not adapt',):
            return 'EXC:TypeError:CouldNotAdapt'
        return 'EXC:%s' % type(x).__name__
    if isinstance(x, (tuple, list)):
        return '(' + ','.join(R(i, depth + 1) for i in x) + ')'
    if isinstance(x, dict):
        return '{' + ','.join(sorted('%s=%s' % (R(k, depth + 1), R(v, depth + 1)) for k, v in x.items())) + '}'
    if isinstance(x, (set, frozenset)):
        return '{' + ','.join(sorted(R(i, depth + 1) for i in x)) + '}'
    if isinstance(x, type):
        return 'cls:%s' % x.__name__
    if isinstance(x, super):
        return 'super(%s,%s)' % (x.__thisclass__.__name__, getattr(x.__self__, 'zname', '?'))
    zname = getattr(x, 'zname', None)
    if isinstance(zname, str):
        return 'obj:%s' % zname
    return 'obj<%s>' % type(x).__name__


class Unhashable:
    __hash__ = None
    zname = 'unhashable'


class RaisingHash:
    zname = 'raisinghash'

    def __hash__(self):
        raise Marker('hash')


class NoAttrs:
    zname = 'noattrs'


class QuietStr(str):
    """A name that is a str but false in a boolean context."""

    def __bool__(self):
        return False


class SpecProxy:
    """Hashes and compares like the specification it wraps (what a transparent proxy does)."""
    zname = 'specproxy'

    def __init__(self, spec):
        self._spec = spec

    def __hash__(self):
        return hash(self._spec)

    def __eq__(self, other):
        return other is self or self._spec == other

    def __ne__(self, other):
        return not self == other


class Program:
    def __init__(self, rng, tag, big):
        self.rng, self.big = rng, big
        self.mod = 'zmd_' + tag
        self.trace = []
        rng_ = rng
        n = rng_.randint(3, 8)
        self.ifaces = []
        for i in range(n):
            k = min(len(self.ifaces), rng_.choice([0, 1, 1, 2]))
            bases = tuple(rng_.sample(self.ifaces, k))
            attrs = {}
            if rng_.random() < 0.3:
                attrs['a'] = zi.Attribute('a of %d' % i)
            self.ifaces.append(InterfaceClass('I%d' % i, bases or (Interface,), attrs, __module__=self.mod))
        self.custom = self.make_custom()
        self.classes = []
        for i in range(rng_.randint(2, 4)):
            k = min(len(self.classes), rng_.choice([0, 1, 1, 2]))
            bases = tuple(rng_.sample(self.classes, k))
            try:
                c = type('K%d' % i, bases or (object,), {})
            except TypeError:
                c = type('K%d' % i, bases[:1] or (object,), {})
            c.__module__ = self.mod
            self.classes.append(c)
        self.objs = []
        for i in range(rng_.randint(2, 5)):
            o = rng_.choice(self.classes)()
            o.zname = 'o%d' % i
            self.objs.append(o)
        self.odd = self.make_odd()
        flav = rng_.choice([AdapterRegistry, VerifyingAdapterRegistry])
        prog = self
        self.gen_fault = False
        self.final = []

        class TopRegistry(flav):
            # a registry whose generation is computed (persistent registries load their state on access) and can fail
            @property
            def _generation(self_):
                if prog.gen_fault:
                    prog.gen_fault = False
                    raise Marker('generation')
                return self_.__dict__.get('_g', 0)

            @_generation.setter
            def _generation(self_, v):
                self_.__dict__['_g'] = v
        self.regs = [TopRegistry()]
        self.regs.append(flav((self.regs[0],)))
        self.regs.append(flav((self.regs[1],)) if rng_.random() < 0.5 else flav())
        self.vals = []
        self.saved_hooks = list(zi.adapter_hooks)
        self.serial = 0

    pending = None

    def run_pending(self):
        p_, self.pending = self.pending, None
        if p_ is not None:
            p_()

    def make_custom(self):
        out = []
        mod = self.mod

        def __adapt__(self_, obj):
            if getattr(obj, 'zname', '') == 'o0':
                return 'custom-adapted'
            return None

        def other(self_):
            return 1
        base = InterfaceClass('IC', (Interface,), {INTERFACE_METHODS: {'__adapt__': __adapt__}}, __module__=mod)
        out.append(base)
        out.append(type(base)('ICd', (base,), {'__module__': mod}))
        out.append(type(base)('ICo', (base,), {'__module__': mod, INTERFACE_METHODS: {'other': other}}))

        class AdaptingInterfaceClass(InterfaceClass):
            # a user's own kind of interface (no interfacemethod involved)
            def __adapt__(self_, obj):
                if getattr(obj, 'zname', '') == 'o0':
                    return 'adapted-by-the-interface-kind'
                return InterfaceClass.__adapt__(self_, obj)
        out.append(AdaptingInterfaceClass('ICk', (Interface,), {}, __module__=mod))
        out.append(AdaptingInterfaceClass('ICkd', (out[-1],), {}, __module__=mod))

        class DerivedKind(AdaptingInterfaceClass):
            # a further subclass that merely inherits the override
            def describe(self_):
                return 'kind:' + self_.__name__
        out.append(DerivedKind('ICkk', (Interface,), {}, __module__=mod))

        class AdaptMixin:
            def __adapt__(self_, obj):
                if getattr(obj, 'zname', '') == 'o0':
                    return 'adapted-by-the-mix-in'
                return None

        class MixedKind(AdaptMixin, InterfaceClass):
            pass
        out.append(MixedKind('ICkm', (Interface,), {}, __module__=mod))
        return out

    def make_odd(self):
        """Objects with unusual declaration attributes."""
        rng = self.rng
        odd = []
        I = self.ifaces

        class ProvNone:
            zname = 'provnone'
            __provides__ = None

        class ProvNonSpec:
            zname = 'provnonspec'
            __provides__ = 42

        class ProvRaisesAttr:
            zname = 'provraisesattr'

            @property
            def __provides__(self):
                raise AttributeError('nope')

        class ProvRaisesOther:
            zname = 'provraisesother'

            @property
            def __provides__(self):
                raise Marker('provides')

        class ProvidedByRaises:
            zname = 'providedbyraises'

            @property
            def __providedBy__(self):
                raise Marker('providedBy')

        class ProvidedByAttrErr:
            zname = 'providedbyattrerr'

            @property
            def __providedBy__(self):
                raise AttributeError('x')

        class ProvidedByNonSpec:
            zname = 'providedbynonspec'
            __providedBy__ = 'not a spec'

        class ClassLies:
            zname = 'classlies'

            @property
            def __class__(self):
                return lied_class      # (never draw from the shared rng here: the implementations
                                       #  read __class__ a different number of times)
        lied_class = self.classes[0]

        class ConformNone:
            zname = 'conformnone'

            def __conform__(self, proto):
                return None

        class ConformValue:
            zname = 'conformvalue'

            def __conform__(self, proto):
                return ('conformed', proto.__name__)

        class ConformRaises:
            zname = 'conformraises'

            def __conform__(self, proto):
                raise Marker('conform')

        class ConformTypeError:
            zname = 'conformtypeerror'

            def __conform__(self, proto):
                raise TypeError('from conform')

        class ConformGetRaises:
            zname = 'conformgetraises'

            @property
            def __conform__(self):
                raise Marker('get conform')
        class ClassRaises:
            zname = 'classraises'

            @property
            def __class__(self):
                raise Marker('class')

        class ExtendsRaises:
            @property
            def extends(self):
                raise Marker('extends')

        class ProvidedByOddExtends:
            # what __providedBy__ hands out is asked for its ``extends`` to tell a specification from anything else
            zname = 'providedbyoddextends'
            __providedBy__ = ExtendsRaises()

        class NonSpecThenProvidesRaises:
            zname = 'nonspecthenprovidesraises'
            __providedBy__ = 'not a spec'

            @property
            def __provides__(self):
                raise Marker('provides after non-spec')

        class MetaProvidesRaises(type):
            @property
            def __provides__(cls):
                raise Marker('class provides')

        class NonSpecThenClassProvidesRaises(metaclass=MetaProvidesRaises):
            zname = 'nonspecthenclassprovidesraises'
            __providedBy__ = 'not a spec'

            def __init__(self):
                self.__dict__['__provides__'] = Declaration(I[0])
        for c in (ProvNone, ProvNonSpec, ProvRaisesAttr, ProvRaisesOther, ProvidedByRaises, ProvidedByAttrErr,
                  ProvidedByNonSpec, ClassLies, ConformNone, ConformValue, ConformRaises, ConformTypeError, ConformGetRaises,
                  ClassRaises, ProvidedByOddExtends, NonSpecThenProvidesRaises):
            classImplements(c, rng.choice(I))
            odd.append(c())
        odd.append(NonSpecThenClassProvidesRaises())
        # the classes themselves are adaptable objects too (unbound __conform__)
        odd.append(ConformValue)
        odd.append(ProvNone)
        return odd

    # -- helpers -------------------------------------------------------------
    def iface(self):
        return self.rng.choice(self.ifaces + ([Interface] if self.rng.random() < 0.1 else []))

    def anyspec(self):
        r = self.rng.random()
        if r < 0.55:
            return self.iface()
        if r < 0.75:
            return implementedBy(self.rng.choice(self.classes))
        if r < 0.9:
            return providedBy(self.rng.choice(self.objs))
        return self.rng.choice([_empty, Interface] + self.custom)

    def obj(self):
        r = self.rng.random()
        if r < 0.62:
            return self.rng.choice(self.objs)
        if r < 0.7:
            # a super proxy: adaptation and lookups see the rest of the MRO, factories get the real object
            ob = self.rng.choice(self.objs)
            return super(self.rng.choice(type(ob).__mro__[:-1]), ob)
        if r < 0.93:
            return self.rng.choice(self.odd)
        return self.rng.choice([None, 5, 'str', object(), NoAttrs(), self.rng.choice(self.classes)])

    def weird(self):
        return self.rng.choice([None, 5, 'x', b'y', Unhashable(), RaisingHash(), NoAttrs(), (), [], object])

    def name(self):
        r = self.rng.random()
        if r < 0.74:
            return self.rng.choice(['', '', 'a', 'b', '\xfc'])
        if r < 0.8:
            return self.rng.choice([QuietStr('a'), QuietStr(''), '\x00a'])
        return self.rng.choice([None, b'a', 3, ('t',)])

    def newval(self):
        self.serial += 1
        v = Val(self.serial, self.rng.random() < 0.8)
        self.vals.append(v)
        return v

    def emit(self, op, fn):
        try:
            out = fn()
        except RecursionError:
            out = 'EXC:RecursionError'
        except BaseException as e:   # noqa
            out = e
        self.trace.append('%s -> %s' % (op, R(out)))

    # -- ops -------------------------------------------------------------------
    def step(self):
        rng = self.rng
        fam = rng.choice(['decl', 'decl', 'query', 'query', 'spec', 'cmp', 'adapt', 'adapt', 'reg', 'reg', 'reg',
                          'lookup', 'lookup', 'lookup', 'odd', 'comp', 'verify'])
        getattr(self, 'op_' + fam)()

    def op_decl(self):
        rng = self.rng
        c = rng.choice(self.classes)
        o = rng.choice(self.objs)
        sel = rng.sample(self.ifaces, rng.randint(0, min(3, len(self.ifaces))))
        k = rng.choice(['ci', 'ci', 'cio', 'cif', 'dp', 'dp', 'ap', 'nlp', 'newcls', 'newobj', 'dpcls'])
        names = [i.__name__ for i in sel]
        if k in ('dp', 'ap', 'nlp'):
            # Instance declarations are shared through a *weak* cache; whether an unreferenced
            # one is still alive depends on when the cyclic GC last ran, which differs between
            # the two processes.  Collect first, so that the cache content is a function of the
            # program's live objects only.
            gc.collect()
        if k == 'ci':
            self.emit('classImplements(%s,%s)' % (c.__name__, names), lambda: classImplements(c, *sel))
        elif k == 'cio':
            self.emit('classImplementsOnly(%s,%s)' % (c.__name__, names), lambda: classImplementsOnly(c, *sel))
        elif k == 'cif' and sel:
            self.emit('classImplementsFirst(%s,%s)' % (c.__name__, names[0]), lambda: classImplementsFirst(c, sel[0]))
        elif k == 'dp':
            self.emit('directlyProvides(%s,%s)' % (o.zname, names), lambda: directlyProvides(o, *sel))
        elif k == 'ap':
            self.emit('alsoProvides(%s,%s)' % (o.zname, names), lambda: alsoProvides(o, *sel))
        elif k == 'nlp' and sel:
            self.emit('noLongerProvides(%s,%s)' % (o.zname, names[0]), lambda: noLongerProvides(o, sel[0]))
        elif k == 'dpcls':
            self.emit('directlyProvides(cls %s,%s)' % (c.__name__, names), lambda: directlyProvides(c, *sel))
        elif k == 'newcls':
            bases = tuple(rng.sample(self.classes, min(len(self.classes), rng.choice([0, 1, 2]))))

            def mk():
                nc = implementer(*sel)(type('K%d' % len(self.classes), bases or (object,), {}))
                nc.__module__ = self.mod
                self.classes.append(nc)
                return nc
            self.emit('newclass(%s,%s)' % ([b.__name__ for b in bases], names), mk)
        elif k == 'newobj':
            no = c()
            no.zname = 'o%d' % len(self.objs)
            self.objs.append(no)
            self.trace.append('newobj %s %s' % (no.zname, c.__name__))

    def op_query(self):
        rng = self.rng
        o = self.obj()
        c = rng.choice(self.classes + [int, object, dict]) if rng.random() < 0.9 else self.weird()
        I = self.iface()
        k = rng.choice(['pb', 'pb', 'ib', 'ipb', 'iib', 'dpb', 'super', 'cprov'])
        on = R(o)
        if k == 'pb':
            self.emit('providedBy(%s)' % on, lambda: list(providedBy(o).flattened()))
        elif k == 'ib':
            self.emit('implementedBy(%s)' % R(c), lambda: list(implementedBy(c).flattened()))
        elif k == 'ipb':
            self.emit('%s.providedBy(%s)' % (I.__name__, on), lambda: bool(I.providedBy(o)))
        elif k == 'iib':
            self.emit('%s.implementedBy(%s)' % (I.__name__, R(c)), lambda: bool(I.implementedBy(c)))
        elif k == 'dpb':
            self.emit('directlyProvidedBy(%s)' % on, lambda: list(directlyProvidedBy(o)))
        elif k == 'cprov':
            self.emit('providedBy(cls %s)' % R(c), lambda: list(providedBy(c).flattened()))
        elif k == 'super':
            ob = rng.choice(self.objs)
            mro = type(ob).__mro__
            C = rng.choice(mro[:-1])
            self.emit('providedBy(super(%s,%s))' % (C.__name__, ob.zname), lambda: list(providedBy(super(C, ob)).flattened()))
            self.emit('implementedBy(super(%s,%s))' % (C.__name__, ob.zname), lambda: list(implementedBy(super(C, ob)).flattened()))

    def op_spec(self):
        rng = self.rng
        S, T = self.anyspec(), self.anyspec()
        if rng.random() < 0.1:
            T = self.weird()
        elif rng.random() < 0.08:
            T = SpecProxy(T)
        k = rng.choice(['ext', 'ioe', 'sro', 'iro', 'rebase', 'get', 'call', 'names', 'contains', 'eqhash', 'interfaces',
                        'spb', 'sib', 'algebra', 'cpdesc', 'weakref', 'lifecycle', 'rename', 'objlife'])
        if k == 'ext':
            self.emit('%s.extends(%s)' % (R(S), R(T)), lambda: bool(S.extends(T)))
            self.emit('%s.extends(%s,False)' % (R(S), R(T)), lambda: bool(S.extends(T, False)))
        elif k == 'ioe':
            self.emit('%s.isOrExtends(%s)' % (R(S), R(T)), lambda: bool(S.isOrExtends(T)))
        elif k == 'call':
            self.emit('%s(%s) [spec call]' % (R(S), R(T)), lambda: S(T) if not isinstance(S, InterfaceClass) else 'skip')
        elif k == 'sro':
            self.emit('%s.__sro__' % R(S), lambda: list(S.__sro__))
        elif k == 'iro':
            self.emit('%s.__iro__' % R(S), lambda: list(S.__iro__))
        elif k == 'interfaces':
            self.emit('list(%s.interfaces())' % R(S), lambda: list(S.interfaces()))
        elif k == 'rebase':
            i = rng.randrange(1, len(self.ifaces)) if len(self.ifaces) > 1 else 0
            if i:
                nb = tuple(rng.sample(self.ifaces[:i], min(i, rng.choice([0, 1, 2])))) or (Interface,)

                def rb():
                    self.ifaces[i].__bases__ = nb
                self.emit('%s.__bases__=%s' % (self.ifaces[i].__name__, R(nb)), rb)
        elif k == 'get':
            self.emit('%s.get(a)' % R(S), lambda: getattr(S.get('a'), 'interface', None))
        elif k == 'names':
            I = self.iface()
            self.emit('%s.names(all)' % R(I), lambda: sorted(I.names(all=True)))
        elif k == 'contains':
            I = self.iface()
            D = rng.choice([implementedBy(rng.choice(self.classes)), providedBy(rng.choice(self.objs)), Declaration(*rng.sample(self.ifaces, 2)) if len(self.ifaces) > 1 else _empty])
            self.emit('%s in %s' % (R(I), R(D)), lambda: I in D)
            self.emit('list(%s)' % R(D), lambda: list(D))
        elif k == 'eqhash':
            self.emit('hash(%s) stable' % R(S), lambda: hash(S) == hash(S))
            if isinstance(S, InterfaceClass):
                self.emit('hash(%s) is the hash of its key' % R(S), lambda: hash(S) == hash((S.__name__, S.__module__)))
        elif k == 'spb':
            # any specification (not only interfaces) asked whether an object provides it
            o = self.obj()
            self.emit('%s.providedBy(%s)' % (R(S), R(o)), lambda: bool(S.providedBy(o)))
        elif k == 'sib':
            c = rng.choice(self.classes + [int, object]) if rng.random() < 0.9 else self.weird()
            self.emit('%s.implementedBy(%s)' % (R(S), R(c)), lambda: bool(S.implementedBy(c)))
        elif k == 'algebra':
            A = rng.choice([implementedBy(rng.choice(self.classes)), providedBy(rng.choice(self.objs)), directlyProvidedBy(rng.choice(self.objs)),
                            Declaration(*rng.sample(self.ifaces, min(2, len(self.ifaces)))), _empty])
            B = rng.choice([self.iface(), implementedBy(rng.choice(self.classes)), directlyProvidedBy(rng.choice(self.objs)), _empty])
            self.emit('%s + %s' % (R(A), R(B)), lambda: list(A + B))
            self.emit('%s - %s' % (R(A), R(B)), lambda: list(A - B))
            self.emit('flattened(%s)' % R(A), lambda: list(A.flattened()))
        elif k == 'cpdesc':
            # the class-provides descriptor: found on the class, hidden from instances
            c = rng.choice(self.classes)
            o = rng.choice(self.objs)
            self.emit('%s.__provides__' % c.__name__, lambda: list(c.__provides__))
            self.emit('%s.__provides__ (instance attribute)' % o.zname, lambda: list(o.__provides__))
            self.emit('%s.__providedBy__' % o.zname, lambda: list(o.__providedBy__.flattened()))
            self.emit('%s.__providedBy__' % c.__name__, lambda: list(c.__providedBy__.flattened()))
        elif k == 'weakref':
            self.emit('%s.weakref()() is S' % R(S), lambda: S.weakref()() is S)
        elif k == 'objlife':
            # a short-lived object adapted through a registry (also as a super proxy), then dropped: it must go away
            import weakref

            def objlife():
                cands = [c_ for c_ in self.classes if len(c_.__mro__) > 2]
                cls_ = rng.choice(cands or self.classes)
                tmp = cls_()
                tmp.zname = 'tmp'
                reg = self.regs[0]
                I_ = self.ifaces[0]
                v = Val(1001)
                reg.register([implementedBy(cls_.__mro__[1]) if len(cls_.__mro__) > 2 else implementedBy(cls_)], I_, 'objlife', v)
                out = [reg.queryAdapter(tmp, I_, 'objlife', 'D'), reg.adapter_hook(I_, tmp, 'objlife', 'D')]
                if len(cls_.__mro__) > 2:
                    out.append(reg.queryAdapter(super(cls_, tmp), I_, 'objlife', 'D'))
                    out.append(reg.queryMultiAdapter((super(cls_, tmp),), I_, 'objlife', 'D'))
                directlyProvides(tmp, I_)
                out.append(bool(I_.providedBy(tmp)))
                wr = weakref.ref(tmp)
                del tmp
                gc.collect()
                gc.collect()
                out.append(('dead', wr() is None))
                reg.unregister([implementedBy(cls_.__mro__[1]) if len(cls_.__mro__) > 2 else implementedBy(cls_)], I_, 'objlife')
                return out
            self.emit('lifecycle of a temporary object', objlife)
        elif k == 'rename':
            # an interface renamed (or moved to another module) after it has been hashed and compared
            def ren():
                self.serial += 1
                m = '%s_ren%d' % (self.mod, self.serial)
                A = InterfaceClass('IRenA', (Interface,), {}, __module__=m)
                B = InterfaceClass('IRenB', (Interface,), {}, __module__=m)
                out = [hash(A) == hash(B), A == B]
                if rng.random() < 0.5:
                    B.__name__ = 'IRenA'
                else:
                    B.__name__ = 'IRenA'
                    B.__module__ = m
                out += [A == B, A != B, B == A, B in [A], (A,) == (B,), A <= B <= A, A < B, hash(B) == hash(B),
                        A.isOrExtends(B), sorted([B, A])[0].__name__]
                return out
            self.emit('rename an interface onto another key', ren)
        elif k == 'lifecycle':
            # a short-lived interface with an attribute: queried, dropped, collected - it must really go away
            # (its weak reference dies, its base forgets the dependent) in both implementations
            import weakref

            def life():
                self.serial += 1
                base = rng.choice(self.ifaces)
                T = InterfaceClass('ITmp', (base,), {'a': zi.Attribute('tmp'), 'm': zi.fromFunction(lambda x: x, name='m')},
                                   __module__='%s_tmp%d' % (self.mod, self.serial))
                out = [T.get('a') is not None, 'm' in T, T.queryDescriptionFor('zz') is None, list(T.names(all=True)) != []]
                directlyProvides(self.objs[0], T, *directlyProvidedBy(self.objs[0]))
                out.append(bool(T.providedBy(self.objs[0])))
                noLongerProvides(self.objs[0], T)
                wr = weakref.ref(T)
                ndep = len(list(base.dependents.keys()))
                del T
                gc.collect()
                gc.collect()
                out.append(('dead', wr() is None))
                out.append(('dependents shrank', len(list(base.dependents.keys())) < ndep))
                return out
            self.emit('lifecycle of a temporary interface', life)

            def class_life():
                # a short-lived class with declarations of every kind (its specifications refer to it and it to them)
                self.serial += 1
                I1, I2 = rng.choice(self.ifaces), rng.choice(self.ifaces)
                K = type('KTmp%d' % self.serial, (rng.choice(self.classes),), {})
                classImplements(K, I1)
                directlyProvides(K, I2)
                o = K()
                directlyProvides(o, I2)
                out = [bool(I1.implementedBy(K)), bool(I2.providedBy(K)), bool(I2.providedBy(o)), bool(I1.providedBy(super(K, o))) in (True, False)]
                refs = [weakref.ref(K), weakref.ref(implementedBy(K)), weakref.ref(K.__provides__)]
                del K, o
                gc.collect()
                gc.collect()
                out.append(('dead', [r() is None for r in refs]))
                return out
            self.emit('lifecycle of a temporary class', class_life)

            def registry_life():
                # a short-lived registry whose cached factory refers back to it
                flav = type(self.regs[1])
                R_ = flav((self.regs[0],))
                I1, P1 = rng.choice(self.ifaces), rng.choice(self.ifaces)

                class Back:
                    def __init__(self, reg):
                        self.reg = reg

                    def __call__(self, ob):
                        return None
                R_.register([I1], P1, '', Back(R_))
                R_.subscribe([I1], P1, Back(R_))
                out = [R_.lookup([I1], P1) is not None, len(R_.subscriptions([I1], P1)), len(R_.lookupAll([I1], P1)),
                       R_.lookup1(I1, P1) is not None]
                refs = [weakref.ref(R_), weakref.ref(R_._v_lookup)]
                del R_
                gc.collect()
                gc.collect()
                out.append(('dead', [r() is None for r in refs]))
                return out
            self.emit('lifecycle of a temporary registry', registry_life)

    def op_cmp(self):
        rng = self.rng
        pool = self.ifaces + self.custom + [implementedBy(c) for c in self.classes]
        if not hasattr(self, 'spaced'):
            # a name containing a blank is taken for a docstring: the interface's __name__ is None
            self.spaced = InterfaceClass('two words', (Interface,), {}, __module__=self.mod)
        pool = pool + [self.spaced]
        a = rng.choice(pool)
        r = rng.random()
        if r < 0.7:
            b = rng.choice(pool)
        elif r < 0.8:
            t = rng.choice(self.ifaces)
            # same name, different module (an equal-keyed twin would collide with the original in the
            # weak ``dependents`` dictionary of their common base - an artefact, see DESIGN 2.5; equal
            # keys are C12's subject)
            self.serial += 1
            # (the same name in another str object: names computed at run time are not interned)
            b = InterfaceClass(''.join(list(t.__name__)), (Interface,), {}, __module__='%s_t%d' % (self.mod, self.serial))
        else:
            class Named:
                zname = 'named'
            nm_ = Named()
            nm_.__name__ = a.__name__
            nm_.__module__ = a.__module__
            b = rng.choice([None, 5, 'I0', NoAttrs(), nm_, rng.choice(self.classes), object()])
        for oname, op in (('lt', operator.lt), ('le', operator.le), ('gt', operator.gt), ('ge', operator.ge), ('eq', operator.eq), ('ne', operator.ne)):
            self.emit('%s %s %s' % (R(a), oname, R(b)), lambda op=op: op(a, b))
            if rng.random() < 0.3:
                self.emit('%s %s %s [reflected]' % (R(b), oname, R(a)), lambda op=op: op(b, a))
        self.emit('hash-eq %s %s' % (R(a), R(b)), lambda: (a == b) is True and hash(a) == hash(b))
        if rng.random() < 0.2:
            sub = rng.sample(pool, min(len(pool), 5)) + [None]
            self.emit('sorted', lambda: sorted(sub))

    def op_adapt(self):
        rng = self.rng
        I = rng.choice(self.ifaces + self.custom)
        o = self.obj()
        r = rng.random()
        if r < 0.25:
            # edit the hook list
            kind = rng.choice(['none', 'value', 'raise', 'clear', 'registry', 'mutating', 'shrinking'])
            if kind == 'clear':
                zi.adapter_hooks[:] = []
            elif kind == 'none':
                zi.adapter_hooks.append(lambda i, ob: None)
            elif kind == 'value':
                tag = len(self.trace)
                zi.adapter_hooks.append(lambda i, ob, tag=tag: ('hooked', tag) if getattr(ob, 'zname', '') in ('o1', 'o2') else None)
            elif kind == 'raise':
                zi.adapter_hooks.append(lambda i, ob: (_ for _ in ()).throw(Marker('hook')) if getattr(ob, 'zname', '') == 'o3' else None)
            elif kind == 'registry':
                zi.adapter_hooks.append(rng.choice(self.regs).adapter_hook)
            elif kind == 'mutating':
                def mut(i, ob):
                    if len(zi.adapter_hooks) < 8:
                        zi.adapter_hooks.append(lambda i2, ob2: None)
                    return None
                zi.adapter_hooks.insert(0, mut)
            elif kind == 'shrinking':
                def shr(i, ob):
                    # unregisters the hooks after the first three while the list is being walked
                    del zi.adapter_hooks[3:]
                    return None
                zi.adapter_hooks.insert(0, shr)
            self.trace.append('hooks %s -> %d' % (kind, len(zi.adapter_hooks)))
            return
        if r < 0.6:
            self.emit('%s(%s)' % (R(I), R(o)), lambda: I(o))
        elif r < 0.8:
            self.emit('%s(%s,alt)' % (R(I), R(o)), lambda: I(o, 'ALT'))
        elif r < 0.88:
            self.emit('%s(%s,alternate=None)' % (R(I), R(o)), lambda: I(o, alternate=None))
        elif r < 0.94:
            self.emit('%s.__adapt__(%s)' % (R(I), R(o)), lambda: I.__adapt__(o))
        elif r < 0.97:
            self.emit('%s() no args' % R(I), lambda: I())
        else:
            self.emit('%s(o,alt,extra)' % R(I), lambda: I(o, 1, 2))

    def op_reg(self):
        rng = self.rng
        ri = rng.randrange(len(self.regs))
        reg = self.regs[ri]
        ar = rng.choice([0, 1, 1, 1, 2, 2, 3])
        keys = self.ifaces + [implementedBy(c) for c in self.classes] + [None]
        req = tuple(rng.choice(keys) for _ in range(ar))
        prov = self.iface() if rng.random() < 0.93 else self.weird()
        name = self.name()
        k = rng.choice(['register', 'register', 'register', 'unregister', 'subscribe', 'subscribe', 'unsubscribe',
                        'registered', 'all', 'rebase', 'rebuild', 'regnone', 'subscribed', 'genfault'])
        d = 'r%d.%s(%s,%s,%s)' % (ri, k, R(req), R(prov), R(name))
        if k == 'genfault':
            # the next read of the top registry's generation fails - during a registration below it, or during a lookup
            v = self.newval()
            if rng.random() < 0.3:
                # the failure hits while a registry is being re-based onto the top registry; later changes in the top
                # registry have to show below all the same
                r2 = self.regs[2]
                req1, prov1 = (self.iface(),), self.iface()

                def setb(b):
                    r2.__bases__ = b
                self.emit('r2.lookup [before re-basing]', lambda: r2.lookup(req1, prov1, ''))
                self.gen_fault = True
                self.emit('r2.__bases__=(r0,) [generation read fails]', lambda: setb((self.regs[0],)))
                self.gen_fault = False
                v.ret = True
                self.emit('r0.register', lambda: self.regs[0].register(req1, prov1, '', v))
                self.emit('r2.lookup [after]', lambda: r2.lookup(req1, prov1, ''))
                self.emit('r2.lookupAll [after]', lambda: sorted(map(R, r2.lookupAll(req1, prov1))))
                self.emit('r2.__bases__ [after]', lambda: [self.regs.index(b) for b in r2.__bases__])
            elif rng.random() < 0.7:
                reg = self.regs[1]           # directly below the top registry
                req1, prov1 = (self.iface(),), self.iface()
                self.emit('r1.lookup(%s,%s) [before a failing registration]' % (R(req1), R(prov1)), lambda: reg.lookup(req1, prov1, ''))
                self.gen_fault = True
                self.emit('r1.register(%s,%s) [generation read fails]' % (R(req1), R(prov1)), lambda: reg.register(req1, prov1, '', v))
                self.gen_fault = False
                self.emit('r1.registered', lambda: reg.registered(req1, prov1, ''))
                self.emit('r1.lookup [after]', lambda: reg.lookup(req1, prov1, ''))
                self.emit('r1.lookupAll [after]', lambda: sorted(map(R, reg.lookupAll(req1, prov1))))
            else:
                self.gen_fault = True
                self.emit(d + '[lookup, generation read fails]', lambda: reg.lookup(req, prov, ''))
                self.gen_fault = False
                self.emit(d + '[lookup again]', lambda: reg.lookup(req, prov, ''))
        elif k == 'register':
            v = self.newval()
            self.emit(d, lambda: reg.register(req, prov, name, v))
        elif k == 'regnone':
            self.emit(d, lambda: reg.register(req, prov, name, None))
        elif k == 'unregister':
            v = rng.choice(self.vals) if self.vals and rng.random() < 0.4 else None
            self.emit(d, lambda: reg.unregister(req, prov, name, v))
        elif k == 'subscribe':
            v = self.newval()
            p2 = prov if rng.random() < 0.7 else None
            self.emit(d, lambda: reg.subscribe(req, p2, v))
        elif k == 'unsubscribe':
            v = rng.choice(self.vals) if self.vals and rng.random() < 0.5 else None
            self.emit(d, lambda: reg.unsubscribe(req, prov if rng.random() < 0.7 else None, v))
        elif k == 'registered':
            self.emit(d, lambda: reg.registered(req, prov, name))
        elif k == 'subscribed':
            v = rng.choice(self.vals) if self.vals else None
            self.emit(d, lambda: reg.subscribed(req, prov, v))
        elif k == 'all':
            self.emit('r%d.allRegistrations' % ri, lambda: sorted(map(R, reg.allRegistrations())))
            self.emit('r%d.allSubscriptions' % ri, lambda: sorted(map(R, reg.allSubscriptions())))
        elif k == 'rebuild':
            self.emit('r%d.rebuild' % ri, lambda: reg.rebuild())
        elif k == 'rebase' and ri > 0:
            nb = tuple(rng.sample(self.regs[:ri], rng.randint(0, min(ri, 2))))

            def rb():
                reg.__bases__ = nb
            self.emit('r%d.__bases__=%s' % (ri, [self.regs.index(b) for b in nb]), rb)

    def op_lookup(self):
        rng = self.rng
        ri = rng.randrange(len(self.regs))
        reg = self.regs[ri]
        ar = rng.choice([0, 1, 1, 1, 2, 2, 3])
        look = self.ifaces + [implementedBy(c) for c in self.classes] + [providedBy(o) for o in self.objs]
        req = tuple(rng.choice(look) for _ in range(ar))
        obs = tuple(self.obj() for _ in range(ar))
        prov = self.iface() if rng.random() < 0.92 else self.weird()
        name = self.name()
        r = rng.random()
        plain_req = req
        if r < 0.06:
            req = (x for x in req)                       # lazy, non-tuple required
        elif r < 0.1:
            req = list(req)
        elif r < 0.13:
            req = self.weird()
        k = rng.choice(['lookup', 'lookup', 'lookup_d', 'lookup1', 'lookup1_d', 'lookupAll', 'names', 'subscriptions',
                        'queryAdapter', 'queryAdapter_d', 'adapter_hook', 'adapter_hook_d', 'queryMultiAdapter', 'subscribers',
                        'kw'])
        d = 'r%d.%s(%s|%s,%s,%s)' % (ri, k, R(req) if isinstance(req, (tuple, list)) else type(req).__name__,
                                      R(obs), R(prov), R(name))
        one = req[0] if isinstance(req, (tuple, list)) and len(req) else self.iface()
        o1 = obs[0] if obs else self.obj()
        self._one_lookup(reg, ri, k, d, req, one, obs, o1, prov, name)
        r2 = rng.random()
        if r2 < 0.3 and isinstance(req, (tuple, list)):
            # the identical call again: this time the answer comes out of the cache
            self._one_lookup(reg, ri, k, d + '[again]', req, one, obs, o1, prov, name)
            if r2 < 0.1:
                # ... and through the sibling entry points that share that cache, with a default
                self.emit(d + '[again:lookup+default]', lambda: reg.lookup(req, prov, name, 'DEFAULT'))
                self.emit(d + '[again:lookup+other default]', lambda: reg.lookup(req, prov, name, 'OTHER'))
                self.emit(d + '[again:lookup, no default]', lambda: reg.lookup(req, prov, name))
                self.emit(d + '[again:lookup1, no default]', lambda: reg.lookup1(one, prov, name))
                self.emit(d + '[again:queryAdapter kw]', lambda: reg.queryAdapter(object=o1, provided=prov, name=name))
                self.emit(d + '[again:lookup1+default]', lambda: reg.lookup1(one, prov, name, 'DEFAULT'))
                self.emit(d + '[again:hook+default]', lambda: reg.adapter_hook(prov, o1, name, 'DEFAULT'))
        elif r2 < 0.4 and isinstance(plain_req, tuple) and k in ('lookup', 'lookup_d', 'lookupAll', 'names', 'subscriptions'):
            # the same key (cached by the call above) asked with a lazy ``required`` whose evaluation changes the
            # registry: both implementations must resolve the arguments before they consult their caches
            target = rng.choice(self.regs)
            v = self.newval()

            def lazy():
                target.register(plain_req, prov if isinstance(prov, InterfaceClass) else self.ifaces[0], '', v)
                yield from plain_req
            self._one_lookup(reg, ri, k, d + '[lazy-mutating-required]', lazy(), one, obs, o1, prov, name)
            self._one_lookup(reg, ri, k, d + '[after-lazy]', plain_req, one, obs, o1, prov, name)

    def _one_lookup(self, reg, ri, k, d, req, one, obs, o1, prov, name):
        p2 = prov if (self.serial + len(d)) % 3 else None      # (a function of the call, so that a repeat is identical)
        if k == 'lookup':
            self.emit(d, lambda: reg.lookup(req, prov, name))
        elif k == 'lookup_d':
            self.emit(d, lambda: reg.lookup(req, prov, name, 'DEFAULT'))
        elif k == 'lookup1':
            self.emit(d, lambda: reg.lookup1(one, prov, name))
        elif k == 'lookup1_d':
            self.emit(d, lambda: reg.lookup1(one, prov, name, 'DEFAULT'))
        elif k == 'lookupAll':
            self.emit(d, lambda: sorted(map(R, reg.lookupAll(req, prov))))
        elif k == 'names':
            self.emit(d, lambda: sorted(map(R, reg.names(req, prov))))
        elif k == 'subscriptions':
            self.emit(d, lambda: list(reg.subscriptions(req, p2)))
        elif k == 'queryAdapter':
            self.emit(d, lambda: reg.queryAdapter(o1, prov, name))
        elif k == 'queryAdapter_d':
            self.emit(d, lambda: reg.queryAdapter(o1, prov, name, 'DEFAULT'))
        elif k == 'adapter_hook':
            self.emit(d, lambda: reg.adapter_hook(prov, o1, name))
        elif k == 'adapter_hook_d':
            self.emit(d, lambda: reg.adapter_hook(prov, o1, name, 'DEFAULT'))
        elif k == 'queryMultiAdapter':
            self.emit(d, lambda: reg.queryMultiAdapter(obs, prov, name, 'DEFAULT'))
        elif k == 'subscribers':
            self.emit(d, lambda: reg.subscribers(obs, p2))
        elif k == 'kw':
            if isinstance(prov, InterfaceClass) and self.rng.random() < 0.7:
                # by keyword, in every order, for a key that has an adapter
                ok_ = self.rng.choice(self.objs)
                vkw = self.newval()
                vkw.ret = True
                self.emit(d + '[kw:register]', lambda: reg.register([providedBy(ok_)], prov, '', vkw))
                self.emit(d + '[kw:qa object,provided]', lambda: reg.queryAdapter(object=ok_, provided=prov))
                self.emit(d + '[kw:qa provided,object]', lambda: reg.queryAdapter(provided=prov, object=ok_, default='D'))
                self.emit(d + '[kw:qa mixed]', lambda: reg.queryAdapter(ok_, provided=prov, name=''))
                self.emit(d + '[kw:hook object,provided]', lambda: reg.adapter_hook(object=ok_, provided=prov))
                self.emit(d + '[kw:hook mixed]', lambda: reg.adapter_hook(prov, object=ok_, default='D'))
                self.emit(d + '[kw:lookup1]', lambda: reg.lookup1(provided=prov, required=providedBy(ok_)))
                self.emit(d + '[kw:lookup]', lambda: reg.lookup(provided=prov, required=[providedBy(ok_)], default='D'))
                self.emit(d + '[kw:lookupAll]', lambda: sorted(map(R, reg.lookupAll(provided=prov, required=[providedBy(ok_)]))))
                self.emit(d + '[kw:subscriptions]', lambda: list(reg.subscriptions(provided=prov, required=[providedBy(ok_)])))
                self.emit(d + '[kw:qma]', lambda: reg.queryMultiAdapter(objects=(ok_,), provided=prov))
            self.emit(d + '[kw]', lambda: reg.lookup(required=req, provided=prov, name=name, default='D'))
            self.emit(d + '[kw1]', lambda: reg.lookup1(required=one, provided=prov))
            self.emit(d + '[kwh]', lambda: reg.adapter_hook(provided=prov, object=o1, name=''))
            self.emit(d + '[kwq]', lambda: reg.queryAdapter(object=o1, provided=prov, default='D'))

    def op_odd(self):
        rng = self.rng
        o = rng.choice(self.odd)
        I = self.iface()
        k = rng.choice(['pb', 'ipb', 'adapt', 'qa', 'dp', 'ib', 'getspec', 'descr', 'pbmut', 'overlap'])
        if k == 'overlap':
            # a registration that lands right after an uncached computation has finished and before its answer is stored
            # (a registry of a subclass whose lookup class extends _uncached_lookup*): what the interrupted call returns is
            # C11's business and is not traced; what the next calls return is
            if not hasattr(self, 'hreg'):
                base_cls = type(self.regs[1])
                prog = self

                class HookedLookup(base_cls.LookupClass):
                    def _uncached_lookup(self_, required, provided, name=''):
                        r = base_cls.LookupClass._uncached_lookup(self_, required, provided, name)
                        prog.run_pending()
                        return r

                    def _uncached_lookupAll(self_, required, provided):
                        r = base_cls.LookupClass._uncached_lookupAll(self_, required, provided)
                        prog.run_pending()
                        return r

                    def _uncached_subscriptions(self_, required, provided):
                        r = base_cls.LookupClass._uncached_subscriptions(self_, required, provided)
                        prog.run_pending()
                        return r

                class HookedRegistry(base_cls):
                    LookupClass = HookedLookup
                self.hreg = HookedRegistry((self.regs[0],))
            hreg = self.hreg
            req1, prov1 = (self.iface(),), self.iface()
            v = self.newval()
            v.ret = True
            how = rng.choice(['lookup', 'lookup1', 'lookupAll', 'subscriptions', 'queryAdapter'])
            if how == 'subscriptions':
                self.pending = lambda: hreg.subscribe(req1, prov1, v)
            else:
                self.pending = lambda: hreg.register(req1, prov1, '', v)

            def ask():
                if how == 'lookup':
                    return hreg.lookup(req1, prov1, '')
                if how == 'lookup1':
                    return hreg.lookup1(req1[0], prov1, '')
                if how == 'lookupAll':
                    return sorted(map(R, hreg.lookupAll(req1, prov1)))
                if how == 'subscriptions':
                    return sorted(map(R, hreg.subscriptions(req1, prov1)))
                ob_ = rng.choice(self.objs)
                return hreg.lookup1(providedBy(ob_), prov1, '')
            try:
                ask()
            except Exception:
                pass
            ran = self.pending is None
            self.pending = None
            self.emit('overlap.%s ran=%s' % (how, ran), lambda: None)
            self.emit('overlap.%s [next call]' % how, ask)
            self.emit('overlap.lookup [next call]', lambda: hreg.lookup(req1, prov1, ''))
            self.emit('overlap.subscriptions [next call]', lambda: sorted(map(R, hreg.subscriptions(req1, prov1))))
            return
        if k == 'pbmut':
            # an object whose declaration is computed, and computing it changes the registry that is adapting the object
            # (the factory for this very key is replaced): the answer is asked before, during and after
            prog = self
            reg = rng.choice(self.regs)
            kls = rng.choice(self.classes)
            spec = implementedBy(kls)
            v1, v2 = self.newval(), self.newval()
            v1.ret = v2.ret = True

            class Computed(kls):
                zname = 'computed'
                armed = False

                @property
                def __providedBy__(self_):
                    if Computed.armed:
                        Computed.armed = False
                        reg.register([spec], I, '', v2)
                    return spec
            oc = Computed()
            how = rng.choice(['adapter_hook', 'queryAdapter', 'call'])

            def ask():
                if how == 'adapter_hook':
                    return reg.adapter_hook(I, oc, '', 'D')
                if how == 'queryAdapter':
                    return reg.queryAdapter(oc, I, '', 'D')
                saved = list(zi.adapter_hooks)
                zi.adapter_hooks[:] = [reg.adapter_hook]
                try:
                    return I(oc, 'D')
                finally:
                    zi.adapter_hooks[:] = saved
            self.emit('pbmut.register', lambda: reg.register([spec], I, '', v1))
            self.emit('pbmut.%s [warm]' % how, ask)
            Computed.armed = True
            self.emit('pbmut.%s [declaration replaces the factory]' % how, ask)
            Computed.armed = False
            self.emit('pbmut.%s [after]' % how, ask)
            self.emit('pbmut.lookup [after]', lambda: reg.lookup([spec], I, ''))
        elif k == 'descr':
            # the descriptor protocol allows the owner to be omitted
            from zope.interface.declarations import objectSpecificationDescriptor as osd
            o2 = rng.choice(self.objs)
            self.emit('osd.__get__(%s)' % R(o2), lambda: R(osd.__get__(o2)))
            self.emit('osd.__get__(%s,cls)' % R(o2), lambda: list(osd.__get__(o2, type(o2)).flattened()))
        elif k == 'pb':
            self.emit('providedBy(%s)' % R(o), lambda: list(providedBy(o).flattened()))
        elif k == 'ipb':
            self.emit('%s.providedBy(%s)' % (R(I), R(o)), lambda: bool(I.providedBy(o)))
        elif k == 'adapt':
            self.emit('%s(%s,alt)' % (R(I), R(o)), lambda: I(o, 'ALT'))
        elif k == 'qa':
            reg = rng.choice(self.regs)
            self.emit('queryAdapter(%s,%s)' % (R(o), R(I)), lambda: reg.queryAdapter(o, I, '', 'D'))
        elif k == 'dp':
            self.emit('directlyProvidedBy(%s)' % R(o), lambda: list(directlyProvidedBy(o)))
        elif k == 'ib':
            w = self.weird()
            self.emit('implementedBy(%s)' % R(w), lambda: list(implementedBy(w).flattened()))
        elif k == 'getspec':
            from zope.interface.declarations import getObjectSpecification
            self.emit('getObjectSpecification(%s)' % R(o), lambda: list(getObjectSpecification(o).flattened()))

    def op_comp(self):
        """A Components registry (pure Python on top of the lookup classes): utilities use the arity-0 paths."""
        rng = self.rng
        if not hasattr(self, 'comps'):
            from zope.interface.registry import Components
            self.comps = Components('zmon')
            self.comp_base = Components('zmon-base')
        comps = rng.choice([self.comps, self.comps, self.comp_base])
        cn = 'comps' if comps is self.comps else 'base'
        prov = self.iface()
        name = rng.choice(['', '', 'a', 'b'])
        req = tuple(rng.choice(self.ifaces + [None] + self.classes) for _ in range(rng.choice([1, 1, 2])))
        k = rng.choice(['ru', 'ru', 'uu', 'ra', 'ra', 'ua', 'rs', 'us', 'rh', 'uh', 'qu', 'qu', 'gu', 'gaur', 'guf', 'qa', 'qma', 'ga',
                        'gas', 'subs', 'handle', 'list', 'bases'])
        keys = self.__dict__.setdefault('comp_keys', [])
        if k in ('ru', 'ra', 'rs', 'rh'):
            keys.append((req, prov, name))
        elif keys and rng.random() < 0.6:
            # ask about / remove something that was registered
            req, prov, name = rng.choice(keys)
        obs = tuple(self.obj() for _ in req)
        d = '%s.%s(%s,%s,%s)' % (cn, k, R(req), R(prov), R(name))
        if k == 'ru':
            v = self.newval()
            self.emit(d, lambda: comps.registerUtility(v, prov, name))
        elif k == 'uu':
            v = rng.choice(self.vals) if self.vals and rng.random() < 0.5 else None
            self.emit(d, lambda: comps.unregisterUtility(v, prov, name))
        elif k == 'ra':
            v = self.newval()
            self.emit(d, lambda: comps.registerAdapter(v, req, prov, name))
        elif k == 'ua':
            self.emit(d, lambda: comps.unregisterAdapter(None, req, prov, name))
        elif k == 'rs':
            v = self.newval()
            self.emit(d, lambda: comps.registerSubscriptionAdapter(v, req, prov))
        elif k == 'us':
            self.emit(d, lambda: comps.unregisterSubscriptionAdapter(None, req, prov))
        elif k == 'rh':
            v = self.newval()
            self.emit(d, lambda: comps.registerHandler(v, req))
        elif k == 'uh':
            self.emit(d, lambda: comps.unregisterHandler(None, req))
        elif k == 'qu':
            self.emit(d, lambda: comps.queryUtility(prov, name, 'DEFAULT'))
        elif k == 'gu':
            self.emit(d, lambda: comps.getUtility(prov, name))
        elif k == 'gaur':
            self.emit(d, lambda: sorted(map(R, comps.getAllUtilitiesRegisteredFor(prov))))
        elif k == 'guf':
            self.emit(d, lambda: sorted(map(R, comps.getUtilitiesFor(prov))))
        elif k == 'qa':
            self.emit(d + R(obs[:1]), lambda: comps.queryAdapter(obs[0], prov, name, 'DEFAULT'))
        elif k == 'qma':
            self.emit(d + R(obs), lambda: comps.queryMultiAdapter(obs, prov, name, 'DEFAULT'))
        elif k == 'ga':
            self.emit(d + R(obs[:1]), lambda: comps.getAdapter(obs[0], prov, name))
        elif k == 'gas':
            self.emit(d + R(obs), lambda: sorted(map(R, comps.getAdapters(obs, prov))))
        elif k == 'subs':
            self.emit(d + R(obs), lambda: comps.subscribers(obs, prov))
        elif k == 'handle':
            self.emit(d + R(obs), lambda: comps.handle(*obs))
        elif k == 'list':
            self.emit(cn + '.registeredUtilities', lambda: sorted((R(r.provided), r.name, R(r.component)) for r in comps.registeredUtilities()))
            self.emit(cn + '.registeredAdapters', lambda: sorted((R(r.required), R(r.provided), r.name, R(r.factory)) for r in comps.registeredAdapters()))
            self.emit(cn + '.rebuild', lambda: comps.rebuildUtilityRegistryFromLocalCache())
        elif k == 'bases':
            nb = (self.comp_base,) if rng.random() < 0.6 else ()

            def rb():
                self.comps.__bases__ = nb
            self.emit('comps.__bases__=%d' % len(nb), rb)

    def op_verify(self):
        from zope.interface.verify import verifyClass, verifyObject
        rng = self.rng
        I = self.iface()
        o = self.obj()
        c = rng.choice(self.classes)
        r = rng.random()
        if r < 0.5:
            self.emit('verifyObject(%s,%s)' % (R(I), R(o)), lambda: verifyObject(I, o))
        elif r < 0.75:
            self.emit('verifyObject(%s,%s,tentative)' % (R(I), R(o)), lambda: verifyObject(I, o, tentative=True))
        else:
            self.emit('verifyClass(%s,%s)' % (R(I), R(c)), lambda: verifyClass(I, c))

    def final_known(self):
        """Last step of every program (so that nothing after it is lost to the comparison): an interface that overrides
        ``providedBy`` through ``interfacemethod``.  Known divergence, see known_findings.json."""
        zi.adapter_hooks[:] = []

        def providedBy(self_, ob):
            return getattr(ob, 'zname', '') == 'o0'
        ICp = InterfaceClass('ICp', (Interface,), {INTERFACE_METHODS: {'providedBy': providedBy}}, __module__=self.mod)
        o0 = self.objs[0]
        n0 = len(self.trace)
        self.emit('ICp(o0, alt) [custom providedBy]', lambda: ICp(o0, 'ALT') is o0)
        # calling by keyword what the C implementation defines as positional-only
        K0, I0 = self.classes[0], self.ifaces[0]
        self.emit('providedBy(ob=o0) [keyword call]', lambda: list(providedBy(ob=o0).flattened()))
        self.emit('implementedBy(cls=K0) [keyword call]', lambda: list(implementedBy(cls=K0).flattened()))
        self.emit('I0.isOrExtends(interface=I0) [keyword call]', lambda: I0.isOrExtends(interface=I0))
        self.emit('I0.providedBy(ob=o0) [keyword call]', lambda: bool(I0.providedBy(ob=o0)))
        self.emit('Declaration(I0)(interface=I0) [keyword call]', lambda: bool(Declaration(I0)(interface=I0)))
        self.final = self.trace[n0:]
        del self.trace[n0:]

    def finish(self):
        zi.adapter_hooks[:] = self.saved_hooks


def run_case(ctx, rng, job):
    big = job['tier'] == 'thorough'
    tag = '%s_%s' % (job['shard'], ctx.case)
    p = Program(rng, tag, big)
    try:
        nsteps = job.get('steps', 300)
        for _ in range(nsteps):
            p.step()
        p.final_known()
    finally:
        p.finish()
    ctx.ev(len(p.trace))
    ctx.count('programs')
    ctx.count('steps', len(p.trace))
    exc = sum(1 for t in p.trace if '-> EXC:' in t)
    ctx.count('steps_with_exception', exc)
    ctx.count('steps_nondefault', sum(1 for t in p.trace if not t.endswith('-> None') and '-> EXC:' not in t))
    for t in p.trace:
        op = t.split('(')[0].split(' ')[0]
        ctx.count('op[%s]' % op[:24]) if False else None
    h = hashlib.sha1()
    chain = []
    for t in p.trace:
        h.update(t.encode('utf8', 'surrogatepass'))
        chain.append(h.hexdigest()[:10])
    ctx.extra.setdefault('programs', {})[tag] = {'chain': chain, 'trace': p.trace if job.get('keep_traces', True) else None,
                                                 'final': p.final}
    ctx.shape(('program', tag), nontrivial=exc > 0)
    if ctx.case < 1 and job['shard'] == 0:
        ctx.sample({'mode': ctx.mode, 'first_steps': p.trace[:25]})
