"""Engine ``reent``: C11 lookups stay memory-safe and atomic when other code
mutates the registry (DESIGN 3.11).

parts (job['part']):
  script   callback point x action x entry point product; answer oracle (M3)
           and cache-ownership audit (M1); natively in py and c; the same
           product *without* retention and with the dict-free-list flood is
           what the valgrind / ASan runners execute (job['audit'] = False)
  leak     reference / allocation leak meters (M4)
  threads  lookup threads (+ a mutator) on shared registries (M5)
"""
import gc
import sys
import threading
import time

from zope.interface import Interface, classImplements, implementedBy, providedBy
from zope.interface import interface as zi
from zope.interface.adapter import AdapterRegistry, VerifyingAdapterRegistry
from zope.interface.declarations import Declaration
from zope.interface.interface import InterfaceClass

from zmon import util, yieldinj

FLAVOURS = {'adapter': AdapterRegistry, 'verifying': VerifyingAdapterRegistry}
ENTRIES = ['lookup', 'lookup1', 'adapter_hook', 'queryAdapter', 'queryMultiAdapter', 'lookupAll', 'names',
           'subscriptions', 'subscribers', 'call']
POINTS = ['lazy_required', 'provided_hash', 'provided_eq', 'name_hash', 'name_bool', 'required_hash', 'required_eq',
          'uncached_entry', 'uncached_exit', 'spec_weakref', 'spec_subscribe', 'providedBy_descr', 'provides_descr',
          'conform', 'factory', 'value_del', 'generation_attr', 'generation_attr_2nd', 'ro_attr', 'super_self']
ACTIONS = ['register', 'unregister', 'subscribe', 'unsubscribe', 'changed', 'rebase', 'reenter_same',
           'reenter_other', 'raise', 'gc', 'register_flood', 'changed_flood', 'reenter_then_base', 'spec_rebase', 'declare', 'rebuild', 'reenter_then_changed']


class Boom(Exception):
    pass


FINALIZED = set()     # tags of values whose __del__ has run
DEAD_IDS = set()      # addresses of Fresh objects that were finalized and whose address has not been re-used by a new one


class Fresh:
    """Object handed out by a computed ``__self__`` of a ``super`` subclass: nobody but the caller owns it."""

    def __init__(self):
        DEAD_IDS.discard(id(self))

    def __del__(self):
        DEAD_IDS.add(id(self))


class Val:
    """Registered value.  Equal by tag, so that the values of a cold replay (fresh objects)
    compare equal to the real ones; records its own finalization."""

    def __init__(self, tag):
        self.tag = tag

    def __call__(self, *obs):
        return ('made', self.tag)

    def __eq__(self, other):
        return isinstance(other, Val) and other.tag == self.tag

    def __ne__(self, other):
        return not self.__eq__(other)

    def __hash__(self):
        return hash(self.tag)

    def __del__(self):
        FINALIZED.add(self.tag)

    def __repr__(self):
        return 'Val(%s)' % (self.tag,)


class ColdVal(Val):
    """Value of a cold replay: equal to the real one, but its death means nothing."""

    def __del__(self):
        pass


class ValSpec:
    """Placeholder for a value in the mutation log: the log must not own the real values
    (a value whose only owners are the registry and a cache has to be able to die)."""

    def __init__(self, tag):
        self.tag = tag


def flood():
    """Fill CPython's dict free list so that dictionaries released next really
    reach free() (DESIGN 2.7)."""
    junk = [dict() for _ in range(200)]
    del junk


def cache_roots(lk):
    """The live top-level cache dictionaries of a lookup object, obtained
    without touching the implementation: C LookupBase exposes them to the GC;
    the Python fallback keeps them as instance attributes."""
    own = vars(lk)
    roots = []
    for name in ('_cache', '_mcache', '_scache'):
        d = own.get(name)
        if type(d) is dict:
            roots.append(d)
    if not roots:
        ids = {id(v) for v in own.values()}
        for d in gc.get_referents(lk):
            if type(d) is dict and d is not own and id(d) not in ids:
                roots.append(d)
    return roots


def inner_dicts(roots):
    out = []
    stack = list(roots)
    seen = set()
    while stack:
        d = stack.pop()
        for v in list(d.values()):
            if type(v) is dict and id(v) not in seen:
                seen.add(id(v))
                out.append(v)
                stack.append(v)
    return out


class Case:
    """One scripted case: a small world, one armed callback, one entry point."""

    def __init__(self, ctx, flavour, point, action, entry, audit, warm='miss'):
        self.ctx, self.flavour, self.point, self.action, self.entry, self.audit = ctx, flavour, point, action, entry, audit
        self.warm = warm
        Case.count = getattr(Case, 'count', 0) + 1
        self.uid = Case.count
        self.armed = False
        self.fired = 0
        self.log = []            # mutation log for the cold replay
        self.orphans = []        # (dict, snapshot) released by the lookup with no other owner
        self.reentrant_results = []   # what lookups made from inside the callback returned
        self.audited = 0
        mod = util.fresh_module()
        case = self

        def fire(where):
            if case.armed and where == case.point:
                case.armed = False
                case.fired += 1
                case.do_action()

        self.fire = fire

        class HIface(InterfaceClass):
            """Interface with Python-level __hash__/__eq__ and dependency hooks."""
            role = None

            def __hash__(self):
                fire((self.role or 'unset') + '_hash')
                return InterfaceClass.__hash__(self)

            def __eq__(self, other):
                fire((self.role or 'unset') + '_eq')
                return InterfaceClass.__eq__(self, other)

            def __ne__(self, other):
                return not self.__eq__(other)

            def weakref(self, callback=None):
                fire('spec_weakref')
                return InterfaceClass.weakref(self, callback)

            def subscribe(self, dependent):
                fire('spec_subscribe')
                return InterfaceClass.subscribe(self, dependent)

        hostile_req = point in ('required_hash', 'required_eq', 'spec_weakref', 'spec_subscribe')
        hostile_prov = point in ('provided_hash', 'provided_eq')
        RC = HIface if hostile_req else InterfaceClass
        PC = HIface if hostile_prov else InterfaceClass
        self.IR0 = InterfaceClass('IR0', (Interface,), {}, __module__=mod)
        self.IR = RC('IR', (self.IR0,), {}, __module__=mod)
        if hostile_req:
            self.IR.role = 'required'
        self.IDecl = InterfaceClass('IDecl', (Interface,), {}, __module__=mod)
        self.IP = PC('IP', (Interface,), {}, __module__=mod)
        if hostile_prov:
            self.IP.role = 'provided'
        # an equal-keyed twin makes dict probes call __eq__ (identity shortcut otherwise)
        self.IR_twin = RC('IR', (self.IR0,), {}, __module__=mod) if point == 'required_eq' else None
        self.IP_twin = PC('IP', (Interface,), {}, __module__=mod) if point == 'provided_eq' else None
        if self.IR_twin is not None:
            self.IR_twin.role = 'required'
        if self.IP_twin is not None:
            self.IP_twin.role = 'provided'

        class Name(str):
            def __hash__(self):
                fire('name_hash')
                return str.__hash__(self)

            def __eq__(self, other):
                return str.__eq__(self, other)

            def __bool__(self):
                fire('name_bool')
                return len(self) > 0

        self.name = Name('n') if point in ('name_hash', 'name_bool') else 'n'
        Base = FLAVOURS[flavour]

        class Lookup(Base.LookupClass):
            def _uncached_lookup(self, required, provided, name=''):
                fire('uncached_entry')
                r = Base.LookupClass._uncached_lookup(self, required, provided, name)
                fire('uncached_exit')
                return r

            def _uncached_lookupAll(self, required, provided):
                fire('uncached_entry')
                r = Base.LookupClass._uncached_lookupAll(self, required, provided)
                fire('uncached_exit')
                return r

            def _uncached_subscriptions(self, required, provided):
                fire('uncached_entry')
                r = Base.LookupClass._uncached_subscriptions(self, required, provided)
                fire('uncached_exit')
                return r

            def changed(self, originally_changed=None):
                if case.action.endswith('_flood'):
                    flood()
                return Base.LookupClass.changed(self, originally_changed)

        class Registry(Base):
            LookupClass = Lookup

        if point == 'ro_attr':
            class Registry(Base):       # noqa: F811
                """The registry's resolution order is read through a hook (every uncached computation walks it; the
                verifying flavour reads it again when it records the generations)."""
                LookupClass = Lookup

                @property
                def ro(self_):
                    fire('ro_attr')
                    return self_.__dict__['_ro']

                @ro.setter
                def ro(self_, v):
                    self_.__dict__['_ro'] = v

        class GenRegistry(Base):
            """Base registry whose _generation / ro are read through hooks (verifying path)."""
            LookupClass = Lookup

            @property
            def _generation(self):
                fire('generation_attr')
                if case.armed and case.point == 'generation_attr_2nd':
                    # the second read after arming: the first one found the generation changed, this one
                    # is made by changed() while it records the generations anew
                    case.gen_reads += 1
                    if case.gen_reads == 2:
                        fire('generation_attr_2nd')
                return self.__dict__.get('_g', 0)

            @_generation.setter
            def _generation(self, v):
                self.__dict__['_g'] = v

        self.Registry = Registry
        self.gen_reads = 0
        self.top = (GenRegistry if point in ('generation_attr', 'generation_attr_2nd') else Registry)()
        self.other = Registry()
        self.reg = Registry((self.top,))
        self.regs = {'top': self.top, 'other': self.other, 'reg': self.reg}
        self.serial = 0
        # adapted object
        provides_spec = Declaration(self.IR)

        class Adaptee:
            pass
        classImplements(Adaptee, self.IR)
        if point == 'providedBy_descr':
            class Adaptee2(Adaptee):
                @property
                def __providedBy__(self_):
                    fire('providedBy_descr')
                    return implementedBy(Adaptee)
            Adaptee = Adaptee2
        elif point == 'provides_descr':
            class Adaptee3(Adaptee):
                @property
                def __provides__(self_):
                    fire('provides_descr')
                    return provides_spec
            Adaptee = Adaptee3
        elif point == 'conform':
            class Adaptee4(Adaptee):
                def __conform__(self_, proto):
                    fire('conform')
                    return None
            Adaptee = Adaptee4
        self.obj = Adaptee()
        self.dead_args = 0
        if point == 'super_self':
            DEAD_IDS.clear()
            # a subclass of super whose __self__ is computed: the lookup is the only owner of what it gets
            class FreshAdaptee(Fresh, Adaptee):
                pass

            class Sub(FreshAdaptee):
                pass

            class S(super):
                @property
                def __self__(self_):
                    fire('super_self')
                    return Sub()
            self.obj = S(Sub, Sub())
        self.lspec = providedBy(self.obj) if point not in ('providedBy_descr', 'provides_descr') else None
        # initial content
        self.mutate('reg', 'register', [self.IR], self.IP, 'n', self.newval())
        self.mutate('top', 'register', [self.IR0], self.IP, 'n', self.newval())
        self.mutate('other', 'register', [self.IR0], self.IP, 'n', self.newval())
        self.mutate('reg', 'subscribe', [self.IR], self.IP, self.newval())
        self.mutate('top', 'subscribe', [self.IR0], self.IP, self.newval())
        self.mutate('other', 'subscribe', [self.IR0], self.IP, self.newval())

    # -- world -----------------------------------------------------------------
    def newval(self):
        self.serial += 1
        return ValSpec('%d.%d' % (self.uid, self.serial))     # unique across the cases of a worker

    def make(self, tag):
        case = self
        if self.point == 'factory':
            class FVal(Val):
                def __call__(self_, *obs):
                    case.fire('factory')
                    return ('made', self_.tag)
            return FVal(tag)
        if self.point == 'super_self':
            class SVal(Val):
                def __call__(self_, *obs):
                    for o in obs:
                        # only the address and the type pointer are looked at; an object of another type living at
                        # the address of a finalized Fresh object (the proxy itself, anything else) is not a dead Fresh
                        if id(o) in DEAD_IDS and issubclass(type(o), Fresh):
                            case.dead_args += 1
                    return ('made', self_.tag)
            return SVal(tag)
        if self.point == 'value_del':
            class DVal(Val):
                def __del__(self_):
                    FINALIZED.add(self_.tag)
                    case.fire('value_del')
            return DVal(tag)
        return Val(tag)

    def mutate(self, which, meth, *args):
        self.log.append((which, meth, args))
        if meth == 'bases':
            self.regs[which].__bases__ = tuple(self.regs[b] for b in args[0])
        else:
            getattr(self.regs[which], meth)(*[self.make(a.tag) if isinstance(a, ValSpec) else a for a in args])

    def cold(self):
        """Fresh plain registries with the same mutation history, no lookups."""
        Base = FLAVOURS[self.flavour]
        rs = {'top': Base(), 'other': Base()}
        rs['reg'] = Base((rs['top'],))
        for which, meth, args in self.log:
            if meth == 'bases':
                rs[which].__bases__ = tuple(rs[b] for b in args[0])
            else:
                getattr(rs[which], meth)(*[ColdVal(a.tag) if isinstance(a, ValSpec) else a for a in args])
        return rs['reg']

    def release_audit(self, mutation):
        """M1: retain the cache dictionaries across the mutation and note which
        of them lose every owner but the monitor."""
        lk = self.reg._v_lookup
        held = inner_dicts(cache_roots(lk)) if self.audit else []
        mutation()
        # A dictionary is an orphan when every reference to it comes from the
        # monitor: the `held` list, or another orphan dictionary that contains it
        # (a name sub-cache inside a released per-provided cache).  Fixpoint, top down.
        orphan_ids = set()
        changed = True
        while changed:
            changed = False
            for d in held:
                if id(d) in orphan_ids:
                    continue
                from_orphans = sum(1 for o in held if id(o) in orphan_ids for v in o.values() if v is d)
                # owners: `held` list + getrefcount argument + the loop variable = 3
                if sys.getrefcount(d) - from_orphans <= 3:
                    orphan_ids.add(id(d))
                    changed = True
        for d in held:
            self.audited += 1
            if id(d) in orphan_ids:
                self.orphans.append((d, dict(d)))
        del held

    def do_action(self):
        a = self.action.replace('_flood', '')
        if a == 'register':
            self.release_audit(lambda: self.mutate('reg', 'register', [self.IR], self.IP, 'n', self.newval()))
        elif a == 'unregister':
            self.release_audit(lambda: self.mutate('reg', 'unregister', [self.IR], self.IP, 'n'))
        elif a == 'subscribe':
            self.release_audit(lambda: self.mutate('reg', 'subscribe', [self.IR], self.IP, self.newval()))
        elif a == 'unsubscribe':
            self.release_audit(lambda: self.mutate('reg', 'unsubscribe', [self.IR], self.IP))
        elif a == 'changed':
            self.release_audit(lambda: self.reg.changed(self.reg))
        elif a == 'rebase':
            self.release_audit(lambda: self.mutate('reg', 'bases', ['other']))
        elif a == 'reenter_same':
            self.reentrant_results.append(self.call_entry(self.reg, self.entry, hostile=False))
        elif a == 'reenter_other':
            self.reentrant_results.append(self.reg.lookupAll([self.IR0], self.IP))
            self.reentrant_results.append(self.reg.subscriptions([self.IR], self.IP))
            self.reentrant_results.append(self.reg.lookup([self.IR0], self.IP, 'other-name'))
            self.reentrant_results.append(self.reg.lookup([self.IR], self.IP, 'n'))
            self.reentrant_results.append(self.reg.lookup1(self.IR, self.IP, 'n'))
        elif a == 'reenter_then_base':
            # an answer is computed (and cached) from inside the callback, then a registry *above* changes
            self.reentrant_results.append(self.call_entry(self.reg, self.entry, hostile=False))
            self.release_audit(lambda: (self.mutate('top', 'subscribe', [self.IR0], self.IP, self.newval()),
                                        self.mutate('top', 'register', [self.IR0], self.IP, 'zz', self.newval())))
        elif a == 'reenter_then_changed':
            # three steps: the interrupted lookup holds its cache; a lookup made from the callback fills the registry's caches
            # again; then they are dropped once more (with the dict-free-list flood, so that they really go away)
            self.reentrant_results.append(self.call_entry(self.reg, self.entry, hostile=False))
            self.reentrant_results.append(self.reg.lookupAll([self.IR], self.IP))
            self.reentrant_results.append(self.reg.subscriptions([self.IR], self.IP))
            flood()
            self.release_audit(lambda: self.reg.changed(self.reg))
        elif a == 'spec_rebase':
            # the required specification being looked up loses its base: what the registries above registered for that base
            # does not apply any more (the invalidation arrives through the specification's dependents)
            def rb_():
                nb = (Interface,) if self.IR.__bases__ != (Interface,) else (self.IR0,)
                self.IR.__bases__ = nb
                if self.IR_twin is not None:
                    # (the equal-keyed re-definition stays a re-definition of the same thing: to the library the two are one
                    # interface, sharing cache entries)
                    self.IR_twin.__bases__ = nb
            self.release_audit(rb_)
        elif a == 'declare':
            # the adapted object's class is declared to implement something else as well (its declaration, which the
            # adapting entry points computed a moment ago, changes)
            def dc_():
                classImplements(type(self.obj) if not isinstance(self.obj, super) else self.obj.__self_class__, self.IDecl)
            self.release_audit(dc_)
        elif a == 'rebuild':
            # the registry is rebuilt (its lookup object is replaced) while one of its lookups is running
            self.release_audit(lambda: self.reg.rebuild())
        elif a == 'raise':
            raise Boom(self.point)
        elif a == 'gc':
            gc.collect()

    # -- entry points ------------------------------------------------------------
    def call_entry(self, reg, entry, hostile=True):
        IR = self.IR_twin if (hostile and self.IR_twin is not None) else self.IR
        IP = self.IP_twin if (hostile and self.IP_twin is not None) else self.IP
        name = self.name if hostile else 'n'
        req = [IR]
        if hostile and self.point == 'lazy_required':
            case = self

            class Lazy:
                def __iter__(self_):
                    case.fire('lazy_required')
                    return iter([IR])

                def __len__(self_):
                    return 1
            req = Lazy()
        if entry == 'lookup':
            return reg.lookup(req, IP, name)
        if entry == 'lookup1':
            return reg.lookup1(IR, IP, name)
        if entry == 'lookupAll':
            return sorted(reg.lookupAll(req, IP), key=lambda kv: kv[0])
        if entry == 'names':
            return sorted(reg.names(req, IP))
        if entry == 'subscriptions':
            return list(reg.subscriptions(req, IP))
        if entry == 'adapter_hook':
            return reg.adapter_hook(IP, self.obj, name)
        if entry == 'queryAdapter':
            return reg.queryAdapter(self.obj, IP, name)
        if entry == 'queryMultiAdapter':
            return reg.queryMultiAdapter((self.obj,), IP, name)
        if entry == 'subscribers':
            return reg.subscribers((self.obj,), IP)
        if entry == 'call':
            saved = list(zi.adapter_hooks)
            zi.adapter_hooks[:] = [lambda iface, ob: reg.queryAdapter(ob, iface, 'n')]
            try:
                return IP(self.obj, None)
            finally:
                zi.adapter_hooks[:] = saved
        raise AssertionError(entry)

    def run(self):
        ctx = self.ctx
        where = {'flavour': self.flavour, 'point': self.point, 'action': self.action, 'entry': self.entry, 'warm': self.warm}
        # warm an unrelated key so that the cache dictionaries exist and are populated
        self.reg.lookup([self.IR0], self.IP, 'n')
        self.reg.lookupAll([self.IR0], self.IP)
        self.reg.subscriptions([self.IR0], self.IP)
        if self.point == 'value_del':
            # the cached value must die inside the invalidation: cache it, then drop the registration
            self.call_entry(self.reg, 'lookup', hostile=False)
        before = self.observe(lambda: self.call_entry(self.cold(), self.entry, hostile=False))
        if self.warm == 'hit':
            # the key under attack is already cached: the callback now fires on the cache-hit path
            self.observe(lambda: self.call_entry(self.reg, self.entry))
        if self.point == 'generation_attr_2nd':
            # something changes above: the armed call finds a new generation and invalidates itself
            self.mutate('top', 'register', [self.IR0], self.IP, 'm2', self.newval())
            before = self.observe(lambda: self.call_entry(self.cold(), self.entry, hostile=False))
        self.armed = True
        if self.point == 'value_del':
            self.armed_del = True
            # unregistering drops the registry's reference; the cache's reference dies in changed()
            r1 = self.observe(lambda: (self.mutate('reg', 'unregister', [self.IR], self.IP, 'n'),
                                       self.call_entry(self.reg, self.entry))[1])
            before = None
        else:
            r1 = self.observe(lambda: self.call_entry(self.reg, self.entry))
        fired = self.fired
        self.armed = False
        if not fired:
            return False
        ctx.count('cells_reached')
        ctx.count('reached[%s]' % self.point)
        ctx.count('action[%s]' % self.action)
        ctx.count('entry[%s]' % self.entry)
        ctx.count('warm[%s]' % self.warm)
        # a value handed back by the interrupted call must be alive (not an object whose last
        # reference died while the lookup was still holding a borrowed pointer to it)
        ctx.ev()
        for v in (r1[1] if isinstance(r1[1], (list, tuple)) else [r1[1]]):
            for x in (v if isinstance(v, tuple) else [v]):
                try:
                    dead = isinstance(x, Val) and x.tag in FINALIZED
                except Exception:
                    dead = True
                if dead:
                    ctx.violation('lookup-returned-a-finalized-object', dict(where, warm=self.warm, value=repr(x)),
                                  mechanism='borrowed_cache_pointer', abort=False)
        # ... and so must what a lookup made *from inside the callback* got (a destructor that runs while the caches are
        # being dropped must not be served from the dictionary that is going away)
        def _flat(x):
            if isinstance(x, (list, tuple)):
                for y in x:
                    yield from _flat(y)
            else:
                yield x
        for x in _flat(self.reentrant_results):
            ctx.ev()
            try:
                dead = isinstance(x, Val) and x.tag in FINALIZED
            except Exception:
                dead = True
            if dead:
                ctx.violation('reentrant-lookup-returned-a-finalized-object', dict(where, warm=self.warm, value=repr(x)), abort=False)
        del self.reentrant_results[:]
        if self.point == 'super_self':
            ctx.ev()
            ctx.count('super_self_factory_checks')
            if self.dead_args:
                ctx.violation('factory-called-with-a-finalized-object', dict(where, times=self.dead_args),
                              mechanism='borrowed_super_self', abort=False)
        r2 = self.observe(lambda: self.call_entry(self.reg, self.entry, hostile=False))
        after = self.observe(lambda: self.call_entry(self.cold(), self.entry, hostile=False))
        ctx.ev(3)
        if self.action == 'raise':
            if not (r1[0] == 'raise' and isinstance(r1[1], Boom)):
                ctx.violation('exception-not-propagated', dict(where, got=repr(r1)), abort=False)
        elif r1[0] == 'raise':
            ctx.violation('interrupted-lookup-raised', dict(where, error=repr(r1[1])), abort=False)
        elif before is not None and not (self.same(r1, before) or self.same(r1, after)):
            ctx.violation('interrupted-answer-neither-before-nor-after',
                          dict(where, got=repr(r1[1]), before=repr(before[1]), after=repr(after[1])), abort=False)
        if r2[0] == 'raise' or not self.same(r2, after):
            ctx.violation('stale-answer-after-mutation', dict(where, next_call=repr(r2[1]), cold_replay=repr(after[1])), abort=False)
        if not self.same(before, after) if before is not None else False:
            ctx.count('cells_where_answer_changed')
        # M1: a dictionary nobody owned at release time must not have been written afterwards
        ctx.count('audited_dicts', self.audited)
        for d, snap in self.orphans:
            ctx.ev()
            if d != snap or len(d) != len(snap):
                ctx.count('writes_after_release')
                ctx.violation('write-to-released-cache-dict', dict(where, before=repr(snap)[:200], after=repr(d)[:200]),
                              mechanism='borrowed_cache_pointer', abort=False)
        return True

    @staticmethod
    def observe(fn):
        try:
            return ('return', fn())
        except Exception as e:
            return ('raise', e)

    @staticmethod
    def same(a, b):
        if a[0] != b[0]:
            return False
        x, y = a[1], b[1]
        if isinstance(x, (list, tuple)) and isinstance(y, (list, tuple)):
            return len(x) == len(y) and all(p is q or p == q for p, q in zip(x, y))
        return x is y or x == y


def script_product(tier):
    flavours = ['adapter', 'verifying']
    out = []
    for f in flavours:
        for p in POINTS:
            for a in ACTIONS:
                for e in ENTRIES:
                    for w in ('miss', 'hit'):
                        out.append((f, p, a, e, w))
    return out


def run_script(ctx, rng, job):
    prod = script_product(job['tier'])
    nchunks = job['cases'] * job['nshards']
    me = job['shard'] * job['cases'] + ctx.case
    audit = job.get('audit', True)
    sel = job.get('only_points')
    for idx in range(me, len(prod), nchunks):
        f, p, a, e, w = prod[idx]
        if sel and p not in sel:
            continue
        if job.get('only_actions') and a not in job['only_actions']:
            continue
        if e == 'call' and a == 'raise' and p in ('provided_hash', 'provided_eq'):
            # fires in the provided-check of IP.__call__ (isOrExtends), before any registry
            # lookup is in progress: outside this property (the C/py difference there is C10's)
            continue
        if p == 'value_del' and a == 'raise':
            continue      # an exception raised by __del__ is discarded by the interpreter, it cannot propagate
        ctx.count('cells_tried')
        case = Case(ctx, f, p, a, e, audit, w)
        reached = case.run()
        if reached:
            ctx.shape((f, p, a, e, w), nontrivial=True)
            if len(ctx.samples) < 2 and ctx.case == 0 and a == 'register' and p == 'uncached_exit':
                ctx.sample({'flavour': f, 'point': p, 'action': a, 'entry': e, 'audited_dicts': case.audited,
                            'orphans_at_release': len(case.orphans)})
        del case
    gc.collect()


# =============================================================================
# M4 leak meters

def run_leak(ctx, rng, job):
    mod = util.fresh_module()
    IR = util.mkiface('IR', module=mod)
    IP = util.mkiface('IP', module=mod)
    sentinel_default = object()

    class Unhashable:
        __hash__ = None

    class RaisingHash:
        def __hash__(self):
            raise Boom('hash')

    class BoolBoom(str):
        def __bool__(self):
            raise Boom('bool')

    class K:
        pass
    classImplements(K, IR)
    ob = K()
    IRtmp = util.mkiface('IRtmp', module=mod)
    import weakref
    N = 1500 if job['tier'] == 'quick' else 6000
    for flavour, Base in FLAVOURS.items():
        class Lk(Base.LookupClass):
            boom = False

            def _uncached_lookup(self, required, provided, name=''):
                if self.boom:
                    raise Boom('uncached')
                return Base.LookupClass._uncached_lookup(self, required, provided, name)

            def _uncached_lookupAll(self, required, provided):
                if self.boom:
                    raise Boom('uncached')
                return Base.LookupClass._uncached_lookupAll(self, required, provided)

            def _uncached_subscriptions(self, required, provided):
                if self.boom:
                    raise Boom('uncached')
                return Base.LookupClass._uncached_subscriptions(self, required, provided)

        class Reg(Base):
            LookupClass = Lk
        reg = Reg()
        fac = Val('f')
        reg.register([IR], IP, '', fac)
        reg.subscribe([IR], IP, fac)
        lk = reg._v_lookup
        lazy_boom = type('LazyBoom', (), {'__iter__': lambda s: (_ for _ in ()).throw(Boom('lazy'))})
        scenarios = {
            'lookup-hit': lambda: reg.lookup([IR], IP, ''),
            'lookup-miss-default': lambda: reg.lookup([IR], IR, '', sentinel_default),
            'lookup-named-miss': lambda: reg.lookup([IR], IP, 'zz', sentinel_default),
            'lookup1-hit': lambda: reg.lookup1(IR, IP, ''),
            'lookup1-miss-default': lambda: reg.lookup1(IR, IR, '', sentinel_default),
            'lookupAll': lambda: reg.lookupAll([IR], IP),
            'subscriptions': lambda: reg.subscriptions([IR], IP),
            'adapter_hook': lambda: reg.adapter_hook(IP, ob, ''),
            'queryAdapter-default': lambda: reg.queryAdapter(ob, IR, '', sentinel_default),
            'lookup-unhashable-provided': lambda: reg.lookup([IR], Unhashable()),
            'lookup-raising-hash-provided': lambda: reg.lookup([IR], RaisingHash()),
            'lookupAll-unhashable-provided': lambda: reg.lookupAll([IR], Unhashable()),
            'subscriptions-unhashable-provided': lambda: reg.subscriptions([IR], Unhashable()),
            'lookup1-unhashable-provided': lambda: reg.lookup1(IR, Unhashable()),
            'lookup-bad-name': lambda: reg.lookup([IR], IP, 5),
            'lookup-lazy-raising-required': lambda: reg.lookup(lazy_boom(), IP),
            'lookup-name-bool-raises': lambda: reg.lookup([IR], IP, BoolBoom('n')),
            'lookup1-name-bool-raises': lambda: reg.lookup1(IR, IP, BoolBoom('n')),
            'adapter_hook-name-bool-raises': lambda: reg.adapter_hook(IP, ob, BoolBoom('n')),
        }
        booms = {
            'lookup-raising-uncached': lambda: reg.lookup([IR, IR], IP, 'q'),
            'lookupAll-raising-uncached': lambda: reg.lookupAll([IR, IR], IP),
            'subscriptions-raising-uncached': lambda: reg.subscriptions([IR, IR], IP),
        }

        def meter(label, fn, boom=False, extra=()):
            lk.boom = False

            def once():
                try:
                    fn()
                except (Boom, TypeError, ValueError):
                    pass
            # a value cached next to what the scenario touches; it must be released once it is unregistered, whatever
            # the scenario left behind (a reference leaked to a cache dictionary keeps everything cached in it alive)
            tmpv = Val('tmp-' + label)
            reg.register([IRtmp], IP, '', tmpv)
            reg.lookup([IRtmp], IP, '')
            reg.lookup1(IRtmp, IP, '')
            lk.boom = boom
            for _ in range(50):
                once()
            gc.collect()
            # the cache dictionaries themselves are metered too: a reference leaked to an inner cache dictionary allocates
            # nothing and touches none of the sentinels
            dicts = inner_dicts(cache_roots(lk)) + cache_roots(lk)
            d0 = [sys.getrefcount(d) for d in dicts]
            r0 = (sys.getrefcount(IR), sys.getrefcount(IP), sys.getrefcount(sentinel_default), sys.getrefcount(fac), sys.getrefcount(ob)) + \
                tuple(sys.getrefcount(x) for x in extra)
            b0 = sys.getallocatedblocks()
            for _ in range(N):
                once()
            gc.collect()
            r1 = (sys.getrefcount(IR), sys.getrefcount(IP), sys.getrefcount(sentinel_default), sys.getrefcount(fac), sys.getrefcount(ob)) + \
                tuple(sys.getrefcount(x) for x in extra)
            b1 = sys.getallocatedblocks()
            d1 = [sys.getrefcount(d) for d in dicts]
            ctx.ev()
            ctx.count('cache_dictionaries_metered', len(dicts))
            del dicts[:]          # (the meter must not keep the caches - and what they hold - alive)
            if any(b - a > N // 10 for a, b in zip(d0, d1)):
                ctx.violation('reference-leak', {'flavour': flavour, 'scenario': label, 'calls': N, 'what': 'a cache dictionary',
                                                 'refcount_deltas_of_cache_dictionaries': [b - a for a, b in zip(d0, d1)]}, abort=False)
            lk.boom = False
            reg.unregister([IRtmp], IP, '')
            wr = weakref.ref(tmpv)
            del tmpv
            gc.collect()
            ctx.ev()
            if wr() is not None:
                ctx.violation('cached-value-kept-alive-after-unregistration', {'flavour': flavour, 'scenario': label}, abort=False)
            ctx.ev()
            ctx.count('leak_scenarios')
            ctx.count('leak_calls', N)
            deltas = [b - a for a, b in zip(r0, r1)]
            slope = (b1 - b0) / float(N)
            ctx.shape(('leak', flavour, label), nontrivial=True)
            if max(deltas) > N // 10 or slope > 0.2:
                ctx.violation('reference-leak', {'flavour': flavour, 'scenario': label, 'calls': N,
                                                 'refcount_deltas[IR,IP,default,factory,object,extras...]': deltas,
                                                 'allocated_blocks_per_call': round(slope, 3)},
                              mechanism='error_path_leaks_required' if 'unhashable-provided' in label or 'raising-hash-provided' in label else None,
                              abort=False)
        for label, fn in scenarios.items():
            meter(label, fn)
        for label, fn in booms.items():
            meter(label, fn, boom=True)
        # the same entry points when every call is a miss that is computed and stored (the caches are dropped in between)
        for label in ('lookup-hit', 'lookup1-hit', 'lookupAll', 'subscriptions', 'adapter_hook', 'lookup-named-miss'):
            fn = scenarios[label]
            meter(label + '-after-invalidation', lambda fn=fn: (lk.changed(None), fn()))
        # an adapted *class* nobody has asked for its implementation specification yet, whose __provides__ is not a
        # specification: its declaration is worked out anew at every call
        odd_provides = ['not a specification']

        class KC:
            __provides__ = odd_provides
        meter('queryAdapter-class-with-nonspec-provides', lambda: reg.queryAdapter(KC, IP, '', sentinel_default), extra=(odd_provides, KC))
        meter('adapter_hook-class-with-nonspec-provides', lambda: reg.adapter_hook(IP, KC, ''), extra=(odd_provides, KC))
        meter('subscribers-class-with-nonspec-provides', lambda: reg.subscribers((KC,), IP), extra=(odd_provides, KC))
        # a super subclass with a computed __self__ (every call gets a new object)
        class KS(K):
            pass

        class SS(super):
            @property
            def __self__(self_):
                return KS()
        sob = SS(KS, KS())
        ks_ob = KS()
        meter('adapter_hook-super-computed-self', lambda: reg.adapter_hook(IP, sob, ''), extra=(KS,))
        meter('queryAdapter-super', lambda: reg.queryAdapter(super(KS, ks_ob), IP, ''), extra=(KS, ks_ob))
        if flavour == 'verifying':
            # a base whose generation is computed (persistent registries) and re-enters changed() of the registry
            # below it while that one is recording the generations anew
            class GBase(Base):
                countdown = -1

                @property
                def _generation(self_):
                    if GBase.countdown >= 0:
                        GBase.countdown -= 1
                        if GBase.countdown < 0:
                            gsite.changed(None)
                    return self_.__dict__.get('_g', 0)

                @_generation.setter
                def _generation(self_, v):
                    self_.__dict__['_g'] = v
            gbase = GBase()
            gsite = Base((gbase,))
            gbase.register([IR], IP, '', fac)

            def reenter():
                gbase.changed(None)
                GBase.countdown = 1
                gsite.lookup((IR,), IP)
            meter('verifying-generation-read-reenters-changed', reenter, extra=(gbase, gsite))

            def reenter_raise():
                gbase.changed(None)
                GBase.countdown = 0
                gsite.lookup1(IR, IP)
            meter('verifying-first-generation-read-reenters-changed', reenter_raise, extra=(gbase, gsite))
    ctx.sample({'scenarios': 'see counters', 'calls_per_scenario': N})


# =============================================================================
# M5 threads

def run_threads(ctx, rng, job):
    mode = job.get('thread_mode', 'mutator')
    secs = job.get('seconds', 3)
    flavour = job.get('flavour') or ('adapter' if ctx.case % 2 == 0 else 'verifying')
    Base = FLAVOURS[flavour]
    mod = util.fresh_module()
    IR0 = util.mkiface('IR0', module=mod)
    IP = util.mkiface('IP', module=mod)
    specs = [util.mkiface('IS%d' % i, (IR0,), module=mod) for i in range(40)]
    do_flood = job.get('flood', False)
    adaptees = []
    for i in range(4):
        K_ = type('KA%d' % i, (), {})
        classImplements(K_, specs[i])
        adaptees.append(K_())

    class Lk(Base.LookupClass):
        def changed(self, originally_changed=None):
            if do_flood:
                flood()
            return Base.LookupClass.changed(self, originally_changed)

    class Reg(Base):
        LookupClass = Lk
    top = Reg()
    reg = Reg((top,))
    sub = Reg((reg,))
    gen = [0]
    vals = {0: Val(0)}
    top.register([IR0], IP, '', vals[0])
    top.subscribe([IR0], IP, vals[0])
    sys.setswitchinterval(job.get('switchinterval', 1e-5))
    stop = [False]
    errors = []
    stats = {'lookups': 0, 'mutations': 0, 'lag_max': 0}
    lock = threading.Lock()

    def looker(k):
        n = 0
        local_err = []
        r = [sub, reg][k % 2]
        try:
            while not stop[0]:
                for s in specs:
                    g0 = gen[0]
                    v = r.lookup([s], IP)
                    g1 = gen[0]
                    n += 1
                    if v is None or not (g0 - 1 <= v.tag <= g1 + 1):
                        # the value identifies the generation it was registered in: must lie in the bracket
                        local_err.append(('lookup', repr(v), g0, g1))
                    la = r.lookupAll([s], IP)
                    if len(la) != 1 or not (g0 - 1 <= la[0][1].tag <= gen[0] + 1):
                        local_err.append(('lookupAll', repr(la), g0, gen[0]))
                    su = r.subscriptions([s], IP)
                    # the permanent subscriber, plus at most the one the mutator adds and removes again
                    if not (1 <= len(su) <= 2 and su[0] is vals[0] and (len(su) == 1 or g0 - 1 <= su[1].tag <= gen[0] + 1)):
                        local_err.append(('subscriptions', repr(su), g0, gen[0]))
                    n += 2
                    # the single-object entry points (their own C code paths and cache), names(), and the calling forms
                    g0 = gen[0]
                    v1 = r.lookup1(s, IP)
                    if v1 is None or not (g0 - 1 <= v1.tag <= gen[0] + 1):
                        local_err.append(('lookup1', repr(v1), g0, gen[0]))
                    g0 = gen[0]
                    made = r.adapter_hook(IP, adaptees[k % len(adaptees)])
                    if not (isinstance(made, tuple) and made[0] == 'made' and g0 - 1 <= made[1] <= gen[0] + 1):
                        local_err.append(('adapter_hook', repr(made), g0, gen[0]))
                    g0 = gen[0]
                    made = r.queryMultiAdapter((adaptees[k % len(adaptees)],), IP)
                    if not (isinstance(made, tuple) and made[0] == 'made' and g0 - 1 <= made[1] <= gen[0] + 1):
                        local_err.append(('queryMultiAdapter', repr(made), g0, gen[0]))
                    nm_ = r.names([s], IP)
                    if list(nm_) != ['']:
                        local_err.append(('names', repr(nm_), g0, gen[0]))
                    n += 4
                    if local_err:
                        break
                if local_err:
                    break
        except BaseException as e:
            local_err.append(('exception', repr(e)))
        with lock:
            stats['lookups'] += n
            errors.extend(local_err[:3])

    def mutator():
        try:
            while not stop[0]:
                g = gen[0] + 1
                v = Val(g)
                vals[g] = v
                gen[0] = g                  # announce before the mutation: answers may be g-1 or g
                top.register([IR0], IP, '', v)
                stats['mutations'] += 1
                if g % 7 == 0:
                    top.subscribe([IR0], IP, v)
                    top.unsubscribe([IR0], IP, v)
        except BaseException as e:
            with lock:
                errors.append(('mutator-exception', repr(e)))

    nlook = job.get('lookers', 3)
    ts = [threading.Thread(target=looker, args=(k,)) for k in range(nlook)]
    if mode == 'mutator':
        ts.append(threading.Thread(target=mutator))
    for t in ts:
        t.start()
    # Run length is decided by logical progress (mutations performed), not by the wall clock;
    # `secs` only scales the targets and the (generous) watchdog.
    want_mut = int(job.get('mutations', 600 * secs)) if mode == 'mutator' else 0
    deadline = time.time() + 20 * secs + 60
    t_min = time.time() + min(secs, 2)
    while time.time() < deadline:
        time.sleep(0.05)
        if errors:
            break
        if time.time() >= t_min and stats['mutations'] >= want_mut:
            break
    stop[0] = True
    for t in ts:
        t.join(60)
    sys.setswitchinterval(0.005)
    ctx.count('thread_runs')
    ctx.count('thread_lookups', stats['lookups'])
    ctx.count('thread_mutations', stats['mutations'])
    ctx.ev(max(1, stats['lookups']))
    ctx.shape(('threads', mode, flavour, nlook, do_flood), nontrivial=True)
    mut_exc = [e for e in errors if e[0] == 'mutator-exception']
    for e in errors:
        if e[0] != 'mutator-exception':
            ctx.violation('thread-observed-wrong-answer-or-exception', {'mode': mode, 'flavour': flavour, 'what': list(map(str, e))},
                          abort=False)
    # quiescence: every registry of the chain must now answer like a cold replay
    final = vals[gen[0]] if mode == 'mutator' else vals[0]
    for r, label in ((sub, 'sub'), (reg, 'reg'), (top, 'top')):
        for s in specs[:10]:
            ctx.ev()
            v = r.lookup([s], IP)
            if v is not final:
                ctx.violation('stale-cache-at-quiescence', {'registry': label, 'flavour': flavour, 'got': repr(v), 'expected': repr(final),
                                                            'mutator_exceptions': [m[1] for m in mut_exc][:2]},
                              mechanism='changed_iterates_live_dict' if mut_exc else None, abort=False)
                break
    if mut_exc:
        ctx.count('mutator_exceptions', len(mut_exc))
    if ctx.case == 0:
        ctx.sample({'mode': mode, 'flavour': flavour, 'lookups': stats['lookups'], 'mutations': stats['mutations']})


def run_subrace(ctx, rng, job):
    """Threads that only perform lookups race to become the *first* dependents of fresh
    specifications (each registry's lookup object subscribes itself to every required
    specification it caches an answer for).  Afterwards, single-threaded, every
    specification is re-based so that the answer changes: a subscription lost in the race
    shows as an answer that survived its invalidation."""
    nthreads = job.get('lookers', 4)
    nspecs = job.get('specs', 120)
    for flavour, Base in FLAVOURS.items():
        mod = util.fresh_module()
        IR0 = util.mkiface('IR0', module=mod)
        IOther = util.mkiface('IOther', module=mod)
        IP = util.mkiface('IP', module=mod)
        specs = [util.mkiface('IS%d' % i, (IR0,), module=mod) for i in range(nspecs)]
        top = Base()
        reg = Base((top,))
        sub = Base((reg,))
        side = Base((top,))
        v0, v1 = Val('v0'), Val('v1')
        top.register([IR0], IP, '', v0)
        top.register([IOther], IP, '', v1)
        barrier = threading.Barrier(nthreads)
        errors = []
        sys.setswitchinterval(1e-6)
        # statement-level preemption inside the subscription bookkeeping
        from zope.interface.adapter import AdapterLookupBase
        from zope.interface.interface import Specification
        injected = yieldinj.install([Specification.subscribe, Specification.unsubscribe, Specification.dependents,
                                     AdapterLookupBase._subscribe], prob=0.5, seed=job['seed'])

        def looker(k):
            try:
                r = [sub, reg, side, sub][k % 4]
                for s in specs:
                    barrier.wait(30)
                    if r.lookup([s], IP) is not v0:
                        errors.append(('wrong-answer', s.__name__))
                    r.lookupAll([s], IP)
            except BaseException as e:     # noqa
                errors.append(('exception', repr(e)))
                try:
                    barrier.abort()
                except Exception:
                    pass
        ts = [threading.Thread(target=looker, args=(k,)) for k in range(nthreads)]
        for t in ts:
            t.start()
        for t in ts:
            t.join(120)
        sys.setswitchinterval(0.005)
        if injected:
            pts, n = yieldinj.fired()
            yieldinj.uninstall()
            ctx.count('yield_injections', n)
            ctx.extra.setdefault('preemption_points', [])
            ctx.extra['preemption_points'] = sorted(set(map(tuple, ctx.extra['preemption_points'])) | pts)
            ctx.counters['distinct_preemption_points'] = len(ctx.extra['preemption_points'])
        for e in errors[:3]:
            ctx.violation('lookup-only-threads-disturbed-each-other', {'flavour': flavour, 'what': list(e)}, abort=False)
        stale = 0
        for s in specs:
            s.__bases__ = (IOther,)
            for r, label in ((sub, 'sub'), (reg, 'reg'), (side, 'side')):
                ctx.ev()
                ctx.count('subrace_probes')
                got = r.lookup([s], IP)
                if got is not v1:
                    stale += 1
                    if stale <= 2:
                        ctx.violation('answer-survived-invalidation-after-racing-subscriptions',
                                      {'flavour': flavour, 'registry': label, 'spec': s.__name__, 'got': repr(got), 'expected': repr(v1)},
                                      abort=False)
        ctx.count('subrace_runs')
        ctx.shape(('subrace', flavour, nthreads), nontrivial=True)


def parked_rebase(ctx):
    """A scheduled interleaving instead of a likely one: a lookup thread on a verifying registry is parked inside the
    computation of the registry's resolution order (it has read the old bases) while another thread re-bases the
    registry; when both are done the registry must resolve along the new chain."""
    from zope.interface import adapter as zadapter
    if not hasattr(zadapter, 'ro') or not hasattr(zadapter.ro, 'ro'):
        return
    V = VerifyingAdapterRegistry
    mod = util.fresh_module()
    IR, IP = util.mkiface('IR', module=mod), util.mkiface('IP', module=mod)
    for park_at in ('after-computing', 'before-computing'):
        top = V()
        reg, alt = V((top,)), V((top,))
        sub = V((alt,))
        alt.register([IR], IP, 'alt', 'ALT')
        reg.register([IR], IP, 'reg', 'REG')
        if sub.lookup([IR], IP, 'alt') != 'ALT':
            continue
        orig = zadapter.ro.ro
        computed, go = threading.Event(), threading.Event()
        armed = [True]

        def slow_ro(C, *a, **k):
            me = threading.current_thread().name == 'zmon-parked' and armed[0]
            if me and park_at == 'before-computing':
                armed[0] = False
                computed.set()
                go.wait(20)
            r = orig(C, *a, **k)
            if me and park_at == 'after-computing':
                armed[0] = False
                computed.set()
                go.wait(20)
            return r
        zadapter.ro.ro = slow_ro
        out = []
        try:
            alt.register([IR], IP, 'other', 'x')     # a generation above sub changes: its next lookup re-verifies
            t = threading.Thread(target=lambda: out.append(sub.lookup([IR], IP, 'alt')), name='zmon-parked')
            t.start()
            reached = computed.wait(20)
            mt = threading.Thread(target=lambda: setattr(sub, '__bases__', (reg,)))
            mt.start()
            mt.join(2)             # (a repaired library may make the mutator wait for the parked thread)
            go.set()
            t.join(20)
            mt.join(20)
        finally:
            zadapter.ro.ro = orig
        ctx.ev()
        ctx.count('parked_rebase_schedules')
        if not reached:
            ctx.count('parked_rebase_not_reached')
            continue
        got_alt, got_reg = sub.lookup([IR], IP, 'alt'), sub.lookup([IR], IP, 'reg')
        if got_alt is not None or got_reg != 'REG' or list(sub.ro) != [sub, reg, top]:
            ctx.violation('stale-resolution-order-after-parked-rebase',
                          {'parked': park_at, 'interrupted_lookup': repr(out), 'alt_answer': repr(got_alt), 'reg_answer': repr(got_reg),
                           'ro_is_new_chain': list(sub.ro) == [sub, reg, top]}, abort=False)


def scheduled_rebuild(ctx):
    """A lookup thread scheduled in the middle of ``rebuild()`` (the mutator is held inside the re-registration of its
    second entry while another thread looks things up on the registry and on one below it).  ``rebuild()`` changes no
    answer, so every lookup must give what it gave before and gives after; and once it has returned, every registry at
    or below must answer as before, whatever was looked up meanwhile."""
    for flavour, Base in FLAVOURS.items():
        mod = util.fresh_module()
        IR, IP = util.mkiface('IR', module=mod), util.mkiface('IP', module=mod)
        hook = [None]

        class Reg(Base):
            def register(self, required, provided, name, value):
                if hook[0] is not None:
                    hook[0](name)
                return Base.register(self, required, provided, name, value)
        top = Reg()
        sub = Base((top,))
        for n_ in ('a', 'b', 'c'):
            top.register([IR], IP, n_, 'V' + n_)
        top.subscribe([IR], IP, 'S')
        before = {r: (sorted(r.lookupAll([IR], IP)), list(r.subscriptions([IR], IP)), [r.lookup([IR], IP, n_) for n_ in 'abc'])
                  for r in (top, sub)}
        during = []
        calls = [0]

        def in_the_middle(name):
            calls[0] += 1
            if calls[0] != 2:
                return

            def look():
                for r in (top, sub):
                    during.append((r is sub, sorted(r.lookupAll([IR], IP)), list(r.subscriptions([IR], IP)),
                                   [r.lookup([IR], IP, n_) for n_ in 'abc']))
            t = threading.Thread(target=look)
            t.start()
            t.join(20)
        hook[0] = in_the_middle
        try:
            top.rebuild()
        finally:
            hook[0] = None
        ctx.ev(2)
        ctx.count('scheduled_rebuild_schedules')
        for is_sub, la, su, lk in during:
            r = sub if is_sub else top
            if (la, su, lk) != before[r]:
                ctx.violation('lookup-during-rebuild-sees-a-half-empty-registry',
                              {'flavour': flavour, 'registry': 'below' if is_sub else 'rebuilt', 'lookupAll': repr(la), 'subscriptions': repr(su),
                               'lookups': repr(lk), 'before_and_after': repr(before[r])}, mechanism='rebuild_not_atomic', abort=False)
                break
        for r in (top, sub):
            now = (sorted(r.lookupAll([IR], IP)), list(r.subscriptions([IR], IP)), [r.lookup([IR], IP, n_) for n_ in 'abc'])
            ctx.ev()
            if now != before[r]:
                ctx.violation('stale-answer-after-rebuild', {'flavour': flavour, 'registry': 'below' if r is sub else 'rebuilt',
                                                             'now': repr(now), 'before': repr(before[r])}, abort=False)


def run_mutrace(ctx, rng, job):
    if ctx.case == 0:
        parked_rebase(ctx)
        scheduled_rebuild(ctx)
        # (sequential, but the same clause: an answer cached below a base must not survive the base's rebuild() plus changes)
        from zmon.engines.registry import rebuilt_base
        for _ in range(6):
            rebuilt_base(ctx, rng)
    """Mutation-window race.  One mutator performs registrations / subscriptions under *fresh* provided interfaces
    (first registration of that interface in the registry: the extendor and reference-count bookkeeping runs) and
    removes them again, in different members of a chain, with statement-level preemption injected inside the
    mutation functions; lookup threads hammer the few keys concerned.  Lookup threads: every answer lies in the
    generation bracket.  Mutator, right after each mutation has *returned*: every registry at or below the mutated one
    must answer with the new value (an answer computed before the mutation must not have survived in a cache)."""
    nmut = job.get('mutations', 250)
    nlook = job.get('lookers', 3)
    from zope.interface.adapter import AdapterLookupBase, BaseAdapterRegistry
    for flavour, Base in FLAVOURS.items():
        mod = util.fresh_module()
        IR0 = util.mkiface('IR0', module=mod)
        IP2 = util.mkiface('IP2', module=mod)
        specs = [util.mkiface('IS%d' % i, (IR0,), module=mod) for i in range(5)]
        top = Base()
        reg = Base((top,))
        sub = Base((reg,))
        chain = [sub, reg, top]
        # permanent entries under the *oldest* provided interface: whatever is registered and removed later sits
        # in front of it in the per-interface bookkeeping, so an in-flight walk that loses its place misses it
        IQZ = util.mkiface('IQZ', (IP2,), module=mod)
        vz = Val(-7)
        top.register([IR0], IQZ, 'z', vz)
        top.subscribe([IR0], IQZ, vz)
        # an alternative parent for ``sub`` (re-basing phase)
        alt = Base((top,))
        valt = Val(-8)
        alt.register([IR0], IQZ, 'alt', valt)
        gen = [0]
        stop = [False]
        errors = []
        during_rebuild = []      # anomalies seen by lookups that overlapped a rebuild() (recorded finding rebuild_not_atomic)
        rb = [0]                 # odd while a rebuild() is under way
        stats = {'lookups': 0}
        lock = threading.Lock()
        sys.setswitchinterval(1e-5)
        fns = [BaseAdapterRegistry.register, BaseAdapterRegistry.unregister, BaseAdapterRegistry.subscribe,
               BaseAdapterRegistry.unsubscribe, AdapterLookupBase.changed, AdapterLookupBase.add_extendor,
               AdapterLookupBase.remove_extendor, Base.changed, BaseAdapterRegistry._setBases, Base._setBases,
               BaseAdapterRegistry._update_ro, Base._update_ro]
        if hasattr(BaseAdapterRegistry, '_addValueToLeaf'):
            fns.append(BaseAdapterRegistry._addValueToLeaf)
        injected = yieldinj.install(fns, prob=0.35, seed=job['seed'] + ctx.case)

        def ok_tag(v, g0, g1):
            return v.tag < 0 or g0 - 1 <= v.tag <= g1 + 1

        def looker(k):
            n = 0
            local = []
            r = chain[k % 3] if k else sub
            while not stop[0] and not local:
                for s in specs:
                    found = []
                    g0 = gen[0]
                    rb0 = rb[0]
                    try:
                        v = r.lookup([s], IP2)
                        if v is not None and not ok_tag(v, g0, gen[0]):
                            found.append(('lookup', repr(v), g0, gen[0]))
                        su = r.subscriptions([s], IP2)
                        if len(su) > 3 or not all(ok_tag(x, g0, gen[0]) for x in su) or sum(1 for x in su if x is vz) != 1:
                            # the permanent subscriber exactly once, plus at most the two generations in flight
                            found.append(('subscriptions', repr(su), g0, gen[0]))
                        la = r.lookupAll([s], IP2)
                        if len(la) > 3 or not all(ok_tag(x[1], g0, gen[0]) for x in la) or ('z', vz) not in la:
                            found.append(('lookupAll', repr(la), g0, gen[0]))
                        vn = r.lookup([s], IP2, 'z')
                        if vn is not vz:
                            found.append(('lookup-named-permanent', repr(vn), g0, gen[0]))
                        va = r.lookup([s], IP2, 'alt')
                        if not (va is None or (va is valt and r is sub)):
                            found.append(('lookup-named-alt', repr(va), g0, gen[0]))
                        n += 5
                    except BaseException as e:      # noqa
                        import traceback
                        found.append(('exception', repr(e), ''.join(traceback.format_exception(type(e), e, e.__traceback__))[-1500:]))
                    if found:
                        if rb0 % 2 == 1 or rb[0] != rb0:
                            # the lookups overlapped a rebuild() of a registry of the chain (recorded finding)
                            with lock:
                                during_rebuild.extend(found)
                        else:
                            local.extend(found)
                            break
            with lock:
                stats['lookups'] += n
                errors.extend(local[:3])
        ts = [threading.Thread(target=looker, args=(k,)) for k in range(nlook)]
        for t in ts:
            t.start()
        prev = None
        done = 0
        deadline = time.time() + 240
        try:
            for g in range(1, nmut + 1):
                if errors or time.time() > deadline:
                    break
                IQ = util.mkiface('IQ%d' % g, (IP2,), module=mod)
                v = Val(g)
                gen[0] = g
                if prev is not None:
                    pt, pq, pv = prev
                    pt.unregister([IR0], pq, '')
                    pt.unsubscribe([IR0], pq, pv)
                ti = g % 3
                target = chain[ti]
                target.register([IR0], IQ, '', v)
                below = chain[:ti + 1]
                for r in below:
                    s = specs[(g + len(below)) % len(specs)]
                    ctx.ev()
                    ctx.count('mutrace_post_mutation_probes')
                    got = r.lookup([s], IP2)
                    if got is not v:
                        errors.append(('stale-after-register', flavour, repr(got), repr(v), 'level %d' % ti))
                        break
                target.subscribe([IR0], IQ, v)
                for r in below:
                    s = specs[(g + 1) % len(specs)]
                    ctx.ev()
                    got = r.subscriptions([s], IP2)
                    if sorted(x.tag for x in got) != sorted([v.tag, vz.tag]):
                        errors.append(('stale-after-subscribe', flavour, repr(got), repr([vz, v]), 'level %d' % ti))
                        break
                if g % 5 == 0:
                    # rebuild phase: a registry of the chain is rebuilt (no answer changes); once it has returned every
                    # registry at or below it answers as before, whatever was looked up meanwhile
                    tr = chain[(g // 5) % 3]
                    rb[0] += 1
                    try:
                        tr.rebuild()
                    finally:
                        rb[0] += 1
                    ctx.count('mutrace_rebuilds')
                    for ri_, r in enumerate(chain[:chain.index(tr) + 1]):
                        ctx.ev()
                        s = specs[g % len(specs)]
                        sees_v = ri_ <= ti          # (the current generation's value lives in chain[ti])
                        if r.lookup([s], IP2, 'z') is not vz or (r.lookup([s], IP2) is not v) == sees_v or \
                                sorted(x.tag for x in r.subscriptions([s], IP2)) != sorted(([v.tag] if sees_v else []) + [vz.tag]):
                            errors.append(('stale-after-rebuild', flavour, 'level %d' % chain.index(tr)))
                            break
                if g % 2 == 0:
                    # re-basing phase: ``sub`` moves to the alternative parent and back; right after each assignment
                    # has returned it must answer along the new chain
                    for parent, expect_alt in ((alt, True), (reg, False)):
                        sub.__bases__ = (parent,)
                        ctx.ev()
                        ctx.count('mutrace_rebasings')
                        got = sub.lookup([specs[g % len(specs)]], IP2, 'alt')
                        if (got is valt) != expect_alt:
                            errors.append(('stale-after-rebase', flavour, repr(got), 'alt parent' if expect_alt else 'regular parent'))
                            break
                prev = (target, IQ, v)
                done += 1
        except BaseException as e:      # noqa
            errors.append(('mutator-exception', repr(e)))
        stop[0] = True
        for t in ts:
            t.join(60)
        sys.setswitchinterval(0.005)
        if injected:
            pts, n = yieldinj.fired()
            yieldinj.uninstall()
            ctx.count('yield_injections', n)
            ctx.extra['preemption_points'] = sorted(set(map(tuple, ctx.extra.get('preemption_points', []))) | pts)
            ctx.counters['distinct_preemption_points'] = len(ctx.extra['preemption_points'])
        ctx.count('mutrace_mutations', done)
        ctx.count('mutrace_lookups', stats['lookups'])
        ctx.ev(max(1, stats['lookups']))
        for e in errors[:3]:
            ctx.violation('mutation-window-race', {'flavour': flavour, 'what': list(map(str, e))}, abort=False)
        ctx.count('lookups_overlapping_a_rebuild_with_a_wrong_answer', len(during_rebuild))
        for e in during_rebuild[:1]:
            ctx.violation('lookup-during-rebuild-sees-a-half-empty-registry', {'flavour': flavour, 'what': list(map(str, e))[:3]},
                          mechanism='rebuild_not_atomic', abort=False)
        ctx.shape(('mutrace', flavour, nlook), nontrivial=True)


def run_case(ctx, rng, job):
    part = job.get('part', 'script')
    if part == 'subrace':
        return run_subrace(ctx, rng, job)
    if part == 'mutrace':
        return run_mutrace(ctx, rng, job)
    if part == 'script':
        run_script(ctx, rng, job)
    elif part == 'leak':
        run_leak(ctx, rng, job)
    else:
        run_threads(ctx, rng, job)
