"""Engine ``components``: C16 Components listings, lookups and events stay
mutually consistent (DESIGN 3.16)."""
from zope.interface import (
    Interface, classImplements, directlyProvides, implementedBy, implementer,
    providedBy,
)
from zope.interface.interfaces import ComponentLookupError
from zope.interface import registry as zr
from zope.interface.adapter import AdapterRegistry
from zope.interface.registry import Components

from zmon import util
from zmon.util import nm


class Comp:
    """Component / factory.  Equality class ``k``; hashability is a property of
    the equality class (DESIGN 3.16 generator constraint)."""

    created = []      # every component of the current case (reset per case)

    def __init__(self, k, serial, hashable=True):
        self.k, self.serial, self.h = k, serial, hashable
        self.calls = []
        Comp.created.append(self)

    eqfault = False

    def __eq__(self, o):
        if self.eqfault:
            raise ValueError('cannot be compared right now')
        return isinstance(o, Comp) and self.k == o.k

    def __ne__(self, o):
        return not self == o

    def __hash__(self):
        if not self.h:
            raise TypeError('unhashable component')
        return hash(self.k)

    def __repr__(self):
        return 'Comp(%s#%s%s)' % (self.k, self.serial, '' if self.h else 'u')

    def __bool__(self):
        # one equality class of components is false in a boolean context (an empty container utility, say)
        return self.k != 3

    def __call__(self, *a):
        self.calls.append(a)
        return None if self.k == 0 else ('made', self.k, self.serial) + tuple(id(x) for x in a)


class UFactory:
    """Utility factory (``registerUtility(factory=...)``): every call makes a new
    component of the same equality class."""

    def __init__(self, k, hashable):
        self.k, self.h = k, hashable
        self.made = []

    def __call__(self):
        c = Comp(self.k, 1000 + len(self.made), self.h)
        self.made.append(c)
        return c

    def __repr__(self):
        return 'UFactory(%s%s)' % (self.k, '' if self.h else 'u')


def run_case(ctx, rng, job):
    big = job['tier'] == 'thorough'
    events = []
    saved = zr.notify
    zr.notify = events.append
    try:
        _run(ctx, rng, big, events)
    finally:
        zr.notify = saved


def _run(ctx, rng, big, events):
    Comp.created = []
    mod = util.fresh_module()
    P = [util.mkiface('P0', module=mod), util.mkiface('P1', module=mod)]
    P.append(util.mkiface('P2', (P[0],), module=mod))
    P.append(util.mkiface('P3', (P[2], P[1]), module=mod))
    from zope.interface.interface import InterfaceClass
    # equal-keyed re-definitions with the same shape (the twin of a base is the base of the twin), as a reloaded
    # module would produce them
    twins = {}
    for p in P:
        twins[id(p)] = InterfaceClass(p.__name__, tuple(twins[id(b)] for b in p.__bases__ if b is not Interface) or (Interface,),
                                      {}, __module__=mod)
    R = [util.mkiface('R0', module=mod), util.mkiface('R1', module=mod)]
    R.append(util.mkiface('R2', (R[0],), module=mod))
    classes = []
    for i in range(3):
        c = type('K%d' % i, (object,), {})
        classImplements(c, *rng.sample(R, rng.randint(1, 2)))
        classes.append(c)
    objs = [rng.choice(classes)() for _ in range(3)]
    utils = {}        # (prov, name) -> (comp, info)
    ufac = {}         # (prov, name) -> UFactory or None
    adap = {}         # (req, prov, name) -> (fac, info)
    subs, hand = [], []
    serial = [0]
    hashmode = rng.random() < 0.6
    kinds = []
    partial = False

    def newcomp():
        serial[0] += 1
        k = rng.randint(0, 3)
        return Comp(k, serial[0], hashmode or k < 2)

    # half of the histories run on a Components object that has a (static) base
    use_base = rng.random() < 0.5
    basec = Components('zmon-base')
    base_utils, base_adap = {}, {}
    if use_base:
        for _ in range(rng.randint(1, 3)):
            bc, bp, bn = newcomp(), rng.choice(P), rng.choice(['', 'a'])
            if (bp, bn) in base_utils:
                continue      # (a replacement would reorder unrelated provided interfaces: ambiguous queries)
            basec.registerUtility(bc, bp, bn)
            base_utils[(bp, bn)] = bc
        for _ in range(rng.randint(0, 2)):
            bc, brq, bp, bn = newcomp(), (rng.choice(R),), rng.choice(P), rng.choice(['', 'a'])
            if (brq, bp, bn) in base_adap:
                continue
            basec.registerAdapter(bc, brq, bp, bn)
            base_adap[(brq, bp, bn)] = bc
    cbases = (basec,) if use_base else ()
    comps = Components('zmon', bases=cbases)
    ctx.count('histories_with_a_base' if use_base else 'histories_without_base')

    def describe_ok(ev, cls, **fields):
        ob = ev.object
        if type(ob).__name__ != cls or ob.registry is not comps:
            return False
        for f, v in fields.items():
            g = getattr(ob, f)
            if f in ('component', 'factory'):
                if not (g is v or g == v):
                    return False
            elif g != v and g is not v:
                return False
        return True

    for step in range(rng.randint(5, 45 if big else 30)):
        del events[:]
        op = rng.choice(['ru', 'ru', 'ru', 'uu', 'ra', 'ra', 'ua', 'rs', 'rs', 'us', 'rh', 'uh', 'reinit', 'copy', 'err'])
        c = newcomp()
        prov = rng.choice(P)
        name = rng.choice(['', 'a', 'b'])
        req = tuple(rng.choice(R + [None]) for _ in range(rng.choice([1, 1, 2])))
        nreq = tuple(Interface if r is None else r for r in req)
        info = rng.choice(['', 'i'])
        accept = None      # list of acceptable event-kind sequences
        noevent = False
        where = {'op': op, 'comp': repr(c), 'provided': nm(prov), 'name': name, 'required': nm(req), 'info': info}
        if op == 'err':
            # calls that are refused (TypeError): nothing is registered, removed or announced
            two = (P[0], P[1])
            shapes = [
                ('utility: factory and component', lambda: comps.registerUtility(c, prov, name, factory=UFactory(c.k, c.h))),
                ('unregister utility: factory and component', lambda: comps.unregisterUtility(c, prov, name, factory=UFactory(c.k, c.h))),
                ('unregister utility: nothing given', lambda: comps.unregisterUtility()),
                ('unregister adapter: nothing given', lambda: comps.unregisterAdapter()),
                ('unregister adapter: provided only', lambda: comps.unregisterAdapter(provided=prov)),
                ('named subscription adapter', lambda: comps.registerSubscriptionAdapter(c, (R[0],), prov, name='n')),
                ('named handler', lambda: comps.registerHandler(c, (R[0],), name='n')),
                ('unregister named handler', lambda: comps.unregisterHandler(c, (R[0],), name='n')),
                ('unregister handler: nothing given', lambda: comps.unregisterHandler()),
                ('required given as a single interface', lambda: comps.registerAdapter(c, R[0], prov)),
                ('required holds something that is no specification', lambda: comps.registerAdapter(c, (R[0], 42), prov)),
                ('utility providing two interfaces, none named', lambda: (directlyProvides(c, *two), comps.registerUtility(c))[1]),
                ('adapter factory implementing nothing, provided not given', lambda: comps.registerAdapter(Comp(9, -5, True), (R[0],))),
            ]
            if not c:
                # (a component that is false in a boolean context next to a factory is taken for "no component given":
                #  the library tests its truth value there; not a call this property says anything about)
                shapes = shapes[2:]
            label, call = rng.choice(shapes)
            ctx.op('refused-call', label)
            ctx.ev()
            ctx.count('refused_calls')
            try:
                call()
                ctx.violation('refused-call-accepted', dict(where, call=label))
            except TypeError:
                pass
            accept = [[]]
        elif op == 'copy':
            # the object goes through copy / the reduce protocol (what persistence does between transactions): the volatile
            # bookkeeping is not part of the state and is worked out again from the listings on first use
            import copy as _copy
            how = rng.choice(['copy', 'dropcache', 'dropcache'])
            ctx.op('copy', how)
            if how == 'copy':
                comps = _copy.copy(comps)
            else:
                comps._v_utility_registrations_cache = None
            ctx.count('volatile_state_dropped[%s]' % how)
            accept = [[]]
        elif op == 'reinit' and use_base and rng.random() < 0.5:
            # the *base* is re-initialised (it gets new registries), the same bases are assigned again - as an
            # application does after re-configuring - and the base gets its registrations back
            ctx.op('reinit-base')
            basec.__init__('zmon-base')
            comps.__bases__ = cbases
            # (other components than before: what the old, discarded registries of the base held must not show)
            for key_ in list(base_utils):
                base_utils[key_] = newcomp()
                basec.registerUtility(base_utils[key_], key_[0], key_[1])
            for key_ in list(base_adap):
                base_adap[key_] = newcomp()
                basec.registerAdapter(base_adap[key_], key_[0], key_[1], key_[2])
            del events[:]
            ctx.count('base_reinitialisations')
            accept = [[]]
        elif op == 'reinit':
            if rng.random() < 0.85:
                continue
            ctx.op('reinit')
            # (re-initialised with the same bases it had)
            comps.__init__('zmon', bases=cbases)
            ctx.count('reinitialisations')
            utils.clear()
            ufac.clear()
            adap.clear()
            del subs[:]
            del hand[:]
            accept = [[]]
        elif op == 'ru':
            if utils and rng.random() < 0.4:
                # same component (identical or equal) again, maybe under another name / provided
                (p0, n0), (c0, i0) = rng.choice(list(utils.items()))
                r = rng.random()
                if r < 0.3:
                    c, prov, name, info = c0, p0, n0, i0            # exact no-op
                elif r < 0.5:
                    c, prov, name = Comp(c0.k, -serial[0], c0.h), p0, n0   # equal, not identical
                elif r < 0.8:
                    c, prov = c0, p0                                 # same component, other name
                else:
                    c = c0                                           # same component, other provided
            form = rng.choice(['explicit', 'explicit', 'explicit', 'factory', 'inferred', 'noevent', 'named'])
            if name == '' and form != 'factory':
                # documented: an empty name is replaced by the component's __component_name__, if it has one
                name = where['name'] = getattr(c, '__component_name__', '')
            old = utils.get((prov, name))
            ctx.op('registerUtility', repr(c), nm(prov), name, info, form)
            fac = None
            if form == 'factory':
                fac = UFactory(c.k, c.h)
                comps.registerUtility(factory=fac, provided=prov, name=name, info=info)
                c = fac.made[-1]
            elif form == 'inferred':
                # provided is taken from what the component provides
                directlyProvides(c, prov)
                comps.registerUtility(c, name=name, info=info)
            elif form == 'named' and name:
                c.__component_name__ = name
                comps.registerUtility(c, prov, info=info)
            elif form == 'noevent':
                comps.registerUtility(c, prov, name, info, event=False)
            elif form == 'explicit' and old is None and rng.random() < 0.15:
                # a component that cannot be compared at the moment (a proxy whose target is gone, say): the call either
                # fails as a whole or succeeds as a whole
                c.eqfault = True
                try:
                    comps.registerUtility(c, prov, name, info)
                    failed = False
                except ValueError:
                    failed = True
                c.eqfault = False
                ctx.count('utility_registrations_with_a_comparison_fault[%s]' % ('failed' if failed else 'passed'))
                if failed:
                    old = (c, info)       # (judged as a call that changed nothing)
            else:
                comps.registerUtility(c, prov, name, info)
            ctx.count('utility_forms[%s]' % form)
            if old is not None and old[0] == c and old[1] == info:
                accept = [[]]
                ctx.count('noop_utility_registrations')
            else:
                accept = [(['U'] if old is not None else []) + ['R']]
                if form == 'noevent':
                    noevent = True
                    accept = [[], ['U']] if old is not None else [[]]
                if old is not None:
                    ctx.count('replaced_utilities')
                utils[(prov, name)] = (c, info)
                ufac[(prov, name)] = fac
                if sum(1 for (cc, _i) in utils.values() if cc == c) >= 2:
                    ctx.count('same_component_multi_name')
        elif op == 'uu':
            usec = rng.random() < .6
            twin_key = rng.random() < 0.15
            if utils and rng.random() < 0.7:
                (prov, name), (c0, i0) = rng.choice(list(utils.items()))
                c = c0 if rng.random() < 0.5 else Comp(c0.k, -1, c0.h)
                if rng.random() < 0.2:
                    c = newcomp()
            old = utils.get((prov, name))
            form = rng.choice(['explicit', 'explicit', 'factory', 'inferred']) if usec else 'explicit'
            ctx.op('unregisterUtility', repr(c) if usec else None, nm(prov), name, form)
            if form == 'factory':
                r = comps.unregisterUtility(factory=UFactory(c.k, c.h), provided=prov, name=name)
            elif form == 'inferred':
                directlyProvides(c, prov)
                r = comps.unregisterUtility(c, name=name)
            elif twin_key:
                # the provided interface named by an equal-keyed re-definition of it (a reloaded module): one interface
                # as far as the library is concerned
                r = comps.unregisterUtility(c if usec else None, twins[id(prov)], name)
                ctx.count('unregistered_through_an_equal_twin_interface')
            else:
                r = comps.unregisterUtility(c if usec else None, prov, name)
            should = old is not None and (not usec or old[0] == c)
            ctx.ev()
            if bool(r) != should:
                ctx.violation('unregister-return', dict(where, returned=r, expected=should))
            accept = [['U']] if should else [[]]
            if should:
                if sum(1 for (cc, _i) in utils.values() if cc == old[0]) >= 2:
                    partial = True
                    ctx.count('partial_removals')
                del utils[(prov, name)]
                ufac.pop((prov, name), None)
        elif op == 'ra':
            if adap and rng.random() < 0.3:
                (nreq, prov, name), (c0, i0) = rng.choice(list(adap.items()))
                req = nreq
                if rng.random() < 0.5:
                    c, info = c0, i0
            form = rng.choice(['explicit', 'explicit', 'explicit', 'inferred', 'class-required', 'noevent', 'named'])
            if (form == 'class-required' or (form == 'inferred' and rng.random() < 0.5)) and req:
                # a class among the required specifications stands for its implementation specification
                k = rng.choice(classes)
                j = rng.randrange(len(req))
                req = req[:j] + (k,) + req[j + 1:]
                nreq = nreq[:j] + (implementedBy(k),) + nreq[j + 1:]
            if name == '':
                name = where['name'] = getattr(c, '__component_name__', '')
            old = adap.get((nreq, prov, name))
            ctx.op('registerAdapter', repr(c), nm(nreq), nm(prov), name, info, form)
            if form == 'inferred':
                # required from __component_adapts__, provided from what the factory implements
                implementer(prov)(c)
                c.__component_adapts__ = req
                comps.registerAdapter(c, name=name, info=info)
                if any(isinstance(x, type) for x in req):
                    ctx.count('component_adapts_with_a_class')
            elif form == 'named' and name:
                c.__component_name__ = name
                comps.registerAdapter(c, req, prov, info=info)
            elif form == 'noevent':
                comps.registerAdapter(c, req, prov, name, info, event=False)
            else:
                comps.registerAdapter(c, req, prov, name, info)
            ctx.count('adapter_forms[%s]' % form)
            adap[(nreq, prov, name)] = (c, info)
            # documented: one Registered per call; strict reading: per registration actually added/removed
            if form == 'noevent':
                noevent = True
                accept = [[]]
            elif old is None:
                accept = [['R']]
            elif old[0] is c and old[1] == info:
                accept = [['R'], []]
            else:
                accept = [['R'], ['U', 'R']]
        elif op == 'ua':
            usec = rng.random() < .6
            if adap and rng.random() < 0.7:
                (nreq, prov, name), (c0, i0) = rng.choice(list(adap.items()))
                req = nreq
                c = c0 if rng.random() < 0.6 else newcomp()
            old = adap.get((nreq, prov, name))
            ctx.op('unregisterAdapter', repr(c) if usec else None, nm(req), nm(prov), name)
            if usec and rng.random() < 0.25:
                implementer(prov)(c)
                c.__component_adapts__ = req
                r = comps.unregisterAdapter(c, name=name)
            else:
                r = comps.unregisterAdapter(c if usec else None, req, prov, name)
            should = old is not None and (not usec or old[0] == c)
            ctx.ev()
            if bool(r) != should:
                ctx.violation('unregister-return', dict(where, returned=r, expected=should))
            accept = [['U']] if should else [[]]
            if should:
                del adap[(nreq, prov, name)]
        elif op == 'rs':
            if subs and rng.random() < 0.4:
                nreq, prov, c0 = rng.choice(subs)
                req = nreq
                if rng.random() < 0.5:
                    c = c0
            form = rng.choice(['explicit', 'explicit', 'inferred', 'noevent'])
            ctx.op('registerSubscriptionAdapter', repr(c), nm(req), nm(prov), info, form)
            if form == 'inferred':
                # required from __component_adapts__, provided from what the factory implements
                implementer(prov)(c)
                c.__component_adapts__ = req
                comps.registerSubscriptionAdapter(c, info=info)
            elif form == 'noevent':
                comps.registerSubscriptionAdapter(c, req, prov, info=info, event=False)
                noevent = True
            else:
                comps.registerSubscriptionAdapter(c, req, prov, info=info)
            ctx.count('subscription_adapter_forms[%s]' % form)
            subs.append((nreq, prov, c))
            accept = [[]] if form == 'noevent' else [['R']]
        elif op == 'us':
            usec = rng.random() < .6
            if subs and rng.random() < 0.7:
                nreq, prov, c0 = rng.choice(subs)
                req = nreq
                c = c0 if rng.random() < 0.5 else Comp(c0.k, -1, c0.h)
            ctx.op('unregisterSubscriptionAdapter', repr(c) if usec else None, nm(req), nm(prov))
            r = comps.unregisterSubscriptionAdapter(c if usec else None, req, prov)
            new = [s for s in subs if not (s[0] == nreq and s[1] is prov and (not usec or s[2] == c))]
            removed = len(subs) - len(new)
            subs[:] = new
            ctx.ev()
            if bool(r) != (removed > 0):
                ctx.violation('unregister-return', dict(where, returned=r, expected=removed > 0))
            accept = [['U'], ['U'] * removed] if removed else [[]]
        elif op == 'rh':
            if hand and rng.random() < 0.4:
                nreq, c0 = rng.choice(hand)
                req = nreq
                if rng.random() < 0.5:
                    c = c0
            form = rng.choice(['explicit', 'explicit', 'inferred', 'noevent'])
            ctx.op('registerHandler', repr(c), nm(req), info, form)
            if form == 'inferred':
                c.__component_adapts__ = req
                comps.registerHandler(c, info=info)
            elif form == 'noevent':
                comps.registerHandler(c, req, info=info, event=False)
                noevent = True
            else:
                comps.registerHandler(c, req, info=info)
            ctx.count('handler_forms[%s]' % form)
            hand.append((nreq, c))
            accept = [[]] if form == 'noevent' else [['R']]
        elif op == 'uh':
            usec = rng.random() < .6
            if hand and rng.random() < 0.7:
                nreq, c0 = rng.choice(hand)
                req = nreq
                c = c0 if rng.random() < 0.5 else Comp(c0.k, -1, c0.h)
            ctx.op('unregisterHandler', repr(c) if usec else None, nm(req))
            r = comps.unregisterHandler(c if usec else None, req)
            new = [h for h in hand if not (h[0] == nreq and (not usec or h[1] == c))]
            removed = len(hand) - len(new)
            hand[:] = new
            ctx.ev()
            if bool(r) != (removed > 0):
                ctx.violation('unregister-return', dict(where, returned=r, expected=removed > 0))
            accept = [['U'], ['U'] * removed] if removed else [[]]
        kinds.append(op)
        # ---- events -------------------------------------------------------------
        got = ['R' if isinstance(e, zr.Registered) else 'U' if isinstance(e, zr.Unregistered) else '?' for e in events]
        ctx.ev()
        ctx.count('event_sequences_checked')
        if got not in accept:
            ctx.violation('events', dict(where, got=got, acceptable=accept))
        # the event must describe the registration that was touched
        if events and op in ('ru', 'uu') and not noevent:
            last = events[-1]
            if not describe_ok(last, 'UtilityRegistration', provided=prov, name=name):
                ctx.violation('event-describes-wrong-registration', dict(where, event=repr(last.object)))
            if op == 'ru' and last.object.component is not c:
                ctx.violation('event-describes-wrong-component', dict(where, event=repr(last.object)))
            if op == 'ru' and len(events) == 2 and not (events[0].object.component is old[0] or events[0].object.component == old[0]):
                ctx.violation('unregistered-event-wrong-component', dict(where))
        if events and op in ('ra', 'ua') and not noevent:
            if not describe_ok(events[-1], 'AdapterRegistration', provided=prov, name=name, required=nreq):
                ctx.violation('event-describes-wrong-registration', dict(where, event=repr(events[-1].object)))
        # a Registered event carries the factory and the info that were registered
        if events and not noevent and op in ('ra', 'rs', 'rh') and isinstance(events[-1], zr.Registered):
            ctx.ev()
            ob_ = events[-1].object
            if ob_.factory is not c or ob_.info != info:
                ctx.violation('event-describes-wrong-registration', dict(where, event=repr(ob_), what='factory or info'))
        if events and not noevent and op == 'ru' and isinstance(events[-1], zr.Registered):
            ctx.ev()
            ob_ = events[-1].object
            if ob_.info != info or ob_.factory is not ufac.get((prov, name)):
                ctx.violation('event-describes-wrong-registration', dict(where, event=repr(ob_), what='info or factory'))
        if events and op in ('rs', 'us'):
            if not describe_ok(events[-1], 'SubscriptionRegistration', provided=prov, required=nreq):
                ctx.violation('event-describes-wrong-registration', dict(where, event=repr(events[-1].object)))
        if events and op in ('rh', 'uh'):
            if not describe_ok(events[-1], 'HandlerRegistration', required=nreq):
                ctx.violation('event-describes-wrong-registration', dict(where, event=repr(events[-1].object)))
        # ---- listings -----------------------------------------------------------
        ctx.ev(4)
        lu = {}
        for r in comps.registeredUtilities():
            if (r.provided, r.name) in lu or r.registry is not comps:
                ctx.violation('listing-utilities-duplicate', where)
            lu[(r.provided, r.name)] = (r.component, r.info)
        if set(lu) != set(utils) or any(lu[k][0] is not utils[k][0] or lu[k][1] != utils[k][1] for k in lu):
            ctx.violation('listing-utilities', dict(where, got=repr(lu), expected=repr(utils)))
        for r in comps.registeredUtilities():
            if r.factory is not ufac.get((r.provided, r.name)):
                ctx.violation('listing-utilities-factory', dict(where, got=repr(r.factory), expected=repr(ufac.get((r.provided, r.name)))))
        la = {(r.required, r.provided, r.name): (r.factory, r.info) for r in comps.registeredAdapters()}
        if set(la) != set(adap) or any(la[k][0] is not adap[k][0] or la[k][1] != adap[k][1] for k in la):
            ctx.violation('listing-adapters', dict(where, got=repr(la), expected=repr(adap)))
        ls = [(r.required, r.provided, r.factory) for r in comps.registeredSubscriptionAdapters()]
        if len(ls) != len(subs) or any(a[0] != b[0] or a[1] is not b[1] or a[2] is not b[2] for a, b in zip(ls, subs)):
            ctx.violation('listing-subscription-adapters', dict(where, got=repr(ls), expected=repr(subs)))
        lh = [(r.required, r.factory) for r in comps.registeredHandlers()]
        if len(lh) != len(hand) or any(a[0] != b[0] or a[1] is not b[1] for a, b in zip(lh, hand)):
            ctx.violation('listing-handlers', dict(where, got=repr(lh), expected=repr(hand)))
        if utils and rng.random() < 0.06:
            # the repair check itself is interrupted (a registered component cannot be compared at the moment): nothing
            # may stay switched off afterwards - later registrations still show in the queries (checked by what follows)
            c_f = rng.choice(sorted(utils.values(), key=lambda cv: repr(cv[0])))[0]
            c_f.eqfault = True
            try:
                comps.rebuildUtilityRegistryFromLocalCache()
                ctx.count('repair_checks_with_a_comparison_fault[passed]')
            except ValueError:
                ctx.count('repair_checks_with_a_comparison_fault[raised]')
            c_f.eqfault = False
        rb = comps.rebuildUtilityRegistryFromLocalCache()
        ctx.ev()
        if rb['needed_registered'] or rb['needed_subscribed']:
            ctx.violation('rebuild-finds-repairs', dict(where, report=rb))
        if rb['did_not_register'] != len(utils) or rb['did_not_subscribe'] != len(utils):
            # (every listed utility is looked at, once for its registration and once for its subscription)
            ctx.violation('rebuild-report-does-not-cover-the-listing', dict(where, report=rb, listed=len(utils)))
        if utils and rng.random() < 0.05:
            # the check itself is checked: the underlying registry is damaged behind the object's back (one utility's
            # registration or subscription removed there); the report must say so, and with rebuild=True repair it
            (p_, n_), (c_, _i) = rng.choice(sorted(utils.items(), key=lambda kv: (kv[0][0].__name__, kv[0][1])))
            what = rng.choice(['registration', 'subscription'])
            if what == 'registration':
                comps.utilities.unregister((), p_, n_)
                want = ('needed_registered', 1)
            else:
                comps.utilities.unsubscribe((), p_, c_)
                want = ('needed_subscribed', 1)     # (subscribed once per provided interface, whatever the number of names)
            seen_damaged = list(comps.getAllUtilitiesRegisteredFor(p_))       # (asked, and cached, in the damaged state)
            rb2 = comps.rebuildUtilityRegistryFromLocalCache(rebuild=True)
            rb3 = comps.rebuildUtilityRegistryFromLocalCache()
            seen_repaired = list(comps.getAllUtilitiesRegisteredFor(p_))
            # (subscriptions are per equality class of the component: an equal one may stand for it)
            if comps.queryUtility(p_, n_) is not c_ or not any(x == c_ for x in seen_repaired):
                ctx.violation('repair-does-not-show-in-the-queries', dict(where, damaged=what, before_repair=repr(seen_damaged),
                                                                          after_repair=repr(seen_repaired)))
            ctx.ev(2)
            ctx.count('damaged_utility_registries_reported_and_repaired[%s]' % what)
            if rb2[want[0]] != want[1] or rb3['needed_registered'] or rb3['needed_subscribed']:
                ctx.violation('rebuild-does-not-report-or-repair-damage', dict(where, damaged=what, first_report=rb2, after_repair=rb3, expected=want))
        # ---- queries vs fresh registries populated with exactly the ledger --------
        fub, fab = AdapterRegistry(), AdapterRegistry()
        seenb = []
        for (p, n), cc in base_utils.items():
            fub.register((), p, n, cc)
            if not any(sp is p and sc == cc for sp, sc in seenb):
                fub.subscribe((), p, cc)
                seenb.append((p, cc))
        for (rq, p, n), f in base_adap.items():
            fab.register(rq, p, n, f)
        fu = AdapterRegistry((fub,) if use_base else ())
        seen = []
        for (p, n), (cc, i) in utils.items():
            fu.register((), p, n, cc)
            if not any(sp is p and sc == cc for sp, sc in seen):
                fu.subscribe((), p, cc)
                seen.append((p, cc))
        fa = AdapterRegistry((fab,) if use_base else ())
        for (rq, p, n), (f, i) in adap.items():
            fa.register(rq, p, n, f)
        for (rq, p, f) in subs:
            fa.subscribe(rq, p, f)
        for (rq, f) in hand:
            fa.subscribe(rq, None, f)
        D = object()
        # (not asked for Interface: P0 and P1 are unrelated, and which of two unrelated
        #  provided interfaces wins is insertion-history dependent, not fixed by the statement)
        for p in P:
            for n in ['', 'a', 'b']:
                ctx.ev()
                a, b = comps.queryUtility(p, n, D), fu.lookup((), p, n, D)
                if a is not b:
                    ctx.violation('queryUtility-vs-fresh', dict(where, provided=nm(p), qname=n, got=repr(a), fresh=repr(b)))
                try:
                    g = comps.getUtility(p, n)
                except ComponentLookupError:
                    g = D
                ctx.ev()
                if g is not b:
                    ctx.violation('getUtility-vs-fresh', dict(where, provided=nm(p), qname=n, got=repr(g), fresh=repr(b)))
            ctx.ev(2)
            a, b = dict(comps.getUtilitiesFor(p)), dict(fu.lookupAll((), p))
            if set(a) != set(b) or any(a[k] is not b[k] for k in a):
                ctx.violation('getUtilitiesFor-vs-fresh', dict(where, provided=nm(p)))
            a, b = list(comps.getAllUtilitiesRegisteredFor(p)), list(fu.subscriptions((), p))
            if len(a) != len(b) or any(sum(1 for x in a if x == y) != sum(1 for x in b if x == y) for y in a + b):
                ctx.violation('getAllUtilitiesRegisteredFor-vs-fresh', dict(where, provided=nm(p), got=repr(a), fresh=repr(b)))
        for q in range(4):
            ar = rng.choice([1, 1, 2])
            obs = tuple(rng.choice(objs) for _ in range(ar))
            p = rng.choice(P)
            n = rng.choice(['', 'a', 'b'])
            ctx.ev(4)
            if ar == 1:
                a, b = comps.queryAdapter(obs[0], p, n, D), fa.queryAdapter(obs[0], p, n, D)
                if a != b and a is not b:
                    ctx.violation('queryAdapter-vs-fresh', dict(where, got=repr(a), fresh=repr(b)))
            a, b = comps.queryMultiAdapter(obs, p, n, D), fa.queryMultiAdapter(obs, p, n, D)
            if a != b and a is not b:
                ctx.violation('queryMultiAdapter-vs-fresh', dict(where, got=repr(a), fresh=repr(b)))
            try:
                g = comps.getMultiAdapter(obs, p, n)
            except ComponentLookupError:
                g = D
            if g != b and g is not b:
                ctx.violation('getMultiAdapter-vs-fresh', dict(where, got=repr(g), fresh=repr(b)))
            if ar == 1:
                try:
                    g = comps.getAdapter(obs[0], p, n)
                except ComponentLookupError:
                    g = D
                if g != b and g is not b:
                    ctx.violation('getAdapter-vs-fresh', dict(where, got=repr(g), fresh=repr(b)))
            a = sorted(comps.getAdapters(obs, p))
            b = sorted((nn, f(*obs)) for nn, f in fa.lookupAll([providedBy(o) for o in obs], p) if f(*obs) is not None)
            if a != b:
                ctx.violation('getAdapters-vs-fresh', dict(where, got=repr(a), fresh=repr(b)))
            a, b = comps.subscribers(obs, p), fa.subscribers(obs, p)
            if sorted(map(repr, a)) != sorted(map(repr, b)) or len(a) != len(b):
                ctx.violation('subscribers-vs-fresh', dict(where, got=repr(a), fresh=repr(b)))
            # handle(): every applicable handler called exactly as the fresh registry would
            hs = list(fa.subscriptions([providedBy(o) for o in obs], None))
            for h in Comp.created:
                del h.calls[:]
            comps.handle(*obs)
            # exactly the applicable live handlers are called, each as often as it is subscribed - and no
            # component that is not (or no longer) a handler for these objects
            called = sorted(id(h) for h in Comp.created for _c in h.calls)
            if called != sorted(id(h) for h in hs):
                stale = [repr(h) for h in Comp.created if h.calls and not any(h is x for x in hs)]
                ctx.violation('handle-vs-fresh', dict(where, calls=len(called), expected=len(hs), called_but_not_live=stale[:4]))
        ctx.count('steps')
        ctx.count('steps[%s]' % op)
    if not hashmode:
        ctx.count('histories_with_unhashable_components')
    ctx.shape(('c16', hashmode, tuple(kinds)), nontrivial=partial)
    if ctx.case < 2:
        ctx.sample({'mode': ctx.mode, 'history': [list(map(str, r)) for r in ctx.log[:25]]})
