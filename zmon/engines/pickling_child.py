"""Second process of the C13 check: unpickle what the first process produced."""
import importlib
import json
import pickle
import sys

from zmon import _boot  # noqa: F401

_boot.verify_mode()
from zope.interface import implementedBy, providedBy  # noqa: E402


def flat(spec):
    return [(x.__name__, x.__module__) for x in spec.flattened()]


def main():
    d, mf = sys.argv[1], sys.argv[2]
    sys.path.insert(0, d)
    with open(mf, 'rb') as f:
        manifest = pickle.load(f)
    loads, viol = 0, []
    for modname, entries in manifest:
        case = int(modname.rsplit('_', 1)[1])
        mod = None
        for kind, name, proto, data, expected in entries:
            loads += 1
            try:
                u = pickle.loads(data)       # imports the module by name
            except Exception as e:
                viol.append({'kind': 'unpickle-error', 'what': kind, 'name': name, 'proto': proto, 'error': repr(e), 'case': case})
                continue
            mod = mod or importlib.import_module(modname)
            if kind == 'iface':
                if u is not getattr(mod, name):
                    viol.append({'kind': 'interface-not-identical', 'name': name, 'proto': proto, 'case': case})
            elif kind == 'impl':
                live = implementedBy(getattr(mod, name))
                if u is not live:
                    viol.append({'kind': 'class-spec-not-identical', 'name': name, 'proto': proto, 'got': repr(u), 'case': case,
                                 'mechanism': 'implements_only_reduce' if live.inherit is None else None})
                elif [list(t) for t in flat(u)] != [list(t) for t in expected]:
                    viol.append({'kind': 'class-spec-differs', 'name': name, 'proto': proto, 'case': case})
            elif kind in ('cprov', 'prov'):
                if [list(t) for t in flat(u)] != [list(t) for t in expected]:
                    viol.append({'kind': kind + '-differs', 'name': name, 'proto': proto, 'got': flat(u), 'expected': expected, 'case': case})
            elif kind == 'obj':
                if [list(t) for t in flat(providedBy(u))] != [list(t) for t in expected]:
                    viol.append({'kind': 'carrier-differs', 'name': name, 'proto': proto, 'got': flat(providedBy(u)), 'expected': expected, 'case': case})
    print(json.dumps({'loads': loads, 'violations': viol[:20]}))


main()
