"""Engine ``adapt``: C14 PEP 246 adaptation order (DESIGN 3.14).

Trace-specification monitor: for every case of the enumerated product the
recorded call log and the outcome of ``I(obj[, alternate])`` and
``I.__adapt__(obj)`` must equal what a 12-line reference computes."""
import itertools

from zope.interface import Interface, classImplements, directlyProvides
from zope.interface import interface as zi
from zope.interface.adapter import AdapterRegistry, VerifyingAdapterRegistry
from zope.interface.interface import INTERFACE_METHODS, InterfaceClass

from zmon import util

CONFORM = ['absent', 'none', 'value', 'value-static', 'value-instfunc', 'value-callableobj', 'value-partial',
           'none-static', 'raise-ValueError', 'raise-TypeError', 'raise-AttributeError',
           'raise-KeyError', 'get-AttributeError', 'get-RuntimeError',
           # the body of a __conform__ that is not a bound method raises: must propagate all the same
           'raise-TypeError-static', 'raise-TypeError-instfunc', 'raise-TypeError-callableobj',
           'raise-AttributeError-static', 'raise-AttributeError-instfunc', 'raise-AttributeError-callableobj',
           # a __conform__ attribute that is None (opting out of an inherited one): counts as having none
           'attr-None-class', 'attr-None-instance']
PROVIDED = ['no', 'class', 'direct', 'class-sub', 'direct-sub']     # '-sub': through an interface that extends the one asked for
ALT = ['absent', 'given', 'none']
# 'other-only:default': an interface class of its own (an interfacemethod) that does not customise __adapt__; placed
# right before the customised ones and collected at once, so that their classes may land where its class was
CUSTOM = ['none', 'other-only:default'] + ['%s:%s' % (s, b) for s in ('own', 'inherited', 'inherited2', 'inherited-deep', 'kind', 'kind-derived', 'kind-mixin')
                                           for b in ('none', 'value', 'raise', 'super')]
EXC = {'ValueError': ValueError, 'TypeError': TypeError, 'AttributeError': AttributeError,
       'KeyError': KeyError, 'RuntimeError': RuntimeError}


def hook_seqs(maxlen):
    out = [()]
    for n in range(1, maxlen + 1):
        out.extend(itertools.product('NVR', repeat=n))
    return out


def product(tier):
    hooks = hook_seqs(2 if tier == 'quick' else 3)
    return [(c, p, h, a, k) for c in CONFORM for p in PROVIDED for h in hooks for a in ALT for k in CUSTOM]


class Marker(Exception):
    pass


def build_iface(custom, log, state):
    """Returns the interface under test.  state['adapt_exc'] / ['adapt_value'] are
    filled in for the reference."""
    mod = util.fresh_module()
    if custom == 'none':
        return InterfaceClass('IT', (Interface,), {}, __module__=mod)
    shape, beh = custom.split(':')
    if shape == 'other-only':
        def helper(self):
            return 1
        return InterfaceClass('IT', (Interface,), {INTERFACE_METHODS: {'helper': helper}}, __module__=mod)

    def __adapt__(self, obj):
        log.append('adapt')
        if beh == 'none':
            return None
        if beh == 'value':
            return state['adapt_value']
        if beh == 'raise':
            raise state['adapt_exc']
        # 'super': fall back to the default behaviour explicitly
        return super(type(self), self).__adapt__(obj) if False else InterfaceClass.__adapt__(self, obj)

    def other(self):
        return 1

    def third(self):
        return 3
    if shape.startswith('kind'):
        # kinds of interface written the ordinary way: a subclass of InterfaceClass that defines __adapt__ in its body,
        # a further subclass that merely inherits it, and one that gets it from a mix-in listed before InterfaceClass
        if shape == 'kind-mixin':
            Mixin = type('AdaptMixin', (object,), {'__adapt__': __adapt__})
            Kind = type('MixedKind', (Mixin, InterfaceClass), {'describe': other})
        else:
            Kind = type('AdaptingKind', (InterfaceClass,), {'__adapt__': __adapt__})
            if shape == 'kind-derived':
                Kind = type('DerivedKind', (Kind,), {'describe': other})
        return Kind('IT', (Interface,), {}, __module__=mod)
    base = InterfaceClass('IB', (Interface,), {INTERFACE_METHODS: {'__adapt__': __adapt__}}, __module__=mod)
    if shape == 'own':
        return base
    if shape == 'inherited':
        return type(base)('IT', (base,), {'__module__': mod})
    if shape == 'inherited2':
        return type(base)('IT', (base,), {'__module__': mod, INTERFACE_METHODS: {'other': other}})
    # inherited-deep: two further levels, each adding another interfacemethod
    mid = type(base)('IM', (base,), {'__module__': mod, INTERFACE_METHODS: {'other': other}})
    return type(mid)('IT', (mid,), {'__module__': mod, INTERFACE_METHODS: {'third': third}})


def build_obj(conform, provided, iface, log, state):
    ns = {}
    inst_attrs = {}
    if conform in ('value-static', 'none-static', 'value-instfunc', 'value-callableobj', 'value-partial') or \
            (conform.count('-') == 2 and not conform.startswith('attr-')):
        # a __conform__ that is a perfectly good callable but not a bound method
        def conform_fn(proto):
            log.append('conform')
            state['conform_arg_ok'] = proto is iface
            if conform.startswith('raise-'):
                raise state['conform_exc']
            return None if conform.startswith('none') else state['conform_value']
        if conform.endswith('-static'):
            ns['__conform__'] = staticmethod(conform_fn)
        elif conform.endswith('-instfunc'):
            inst_attrs['__conform__'] = conform_fn
        elif conform == 'value-partial':
            import functools
            inst_attrs['__conform__'] = functools.partial(lambda extra, proto: conform_fn(proto), 0)
        else:
            class CallableConform:
                def __call__(self, proto):
                    return conform_fn(proto)
            inst_attrs['__conform__'] = CallableConform()
    elif conform in ('none', 'value') or conform.startswith('raise-'):
        def __conform__(self, proto):
            log.append('conform')
            state['conform_arg_ok'] = proto is iface
            if conform == 'none':
                return None
            if conform == 'value':
                return state['conform_value']
            raise state['conform_exc']
        ns['__conform__'] = __conform__
    elif conform == 'attr-None-class':
        # the base class has a working __conform__, the class itself sets it to None
        def base_conform(self, proto):
            log.append('conform')
            return state.get('conform_value')
        Base_ = type('ObjBase', (object,), {'__conform__': base_conform})
        cls = type('Obj', (Base_,), {'__conform__': None})
        if provided.startswith('class'):
            classImplements(cls, sub_of(iface) if provided.endswith('-sub') else iface)
        obj = cls()
        if provided.startswith('direct'):
            directlyProvides(obj, sub_of(iface) if provided.endswith('-sub') else iface)
        return obj
    elif conform == 'attr-None-instance':
        inst_attrs['__conform__'] = None
    elif conform.startswith('get-'):
        def getter(self):
            log.append('conform-get')
            raise state['conform_exc']
        ns['__conform__'] = property(getter)
    cls = type('Obj', (object,), ns)
    if provided.startswith('class'):
        classImplements(cls, sub_of(iface) if provided.endswith('-sub') else iface)
    obj = cls()
    for k, v in inst_attrs.items():
        setattr(obj, k, v)
    if provided.startswith('direct'):
        directlyProvides(obj, sub_of(iface) if provided.endswith('-sub') else iface)
    return obj


def sub_of(iface):
    """A plain interface that extends *iface* (whatever kind of interface that is)."""
    return InterfaceClass('ITSub', (iface,), {}, __module__=util.fresh_module())


def reference(conform, provided, hooks, alt, custom, obj, iface, state, direct_adapt=False):
    """-> (expected log, ('return', value) | ('raise', exception object) | ('could-not-adapt',))"""
    log = []
    if not direct_adapt:
        if conform == 'get-AttributeError':
            log.append('conform-get')                    # a missing __conform__: ignored
        elif conform.startswith('get-'):
            log.append('conform-get')
            return log, ('raise', state['conform_exc'])
        elif conform.startswith('attr-None'):
            pass                                           # None: treated as absent, nothing is called
        elif conform != 'absent':
            log.append('conform')
            if conform.startswith('raise-'):
                return log, ('raise', state['conform_exc'])
            if conform.startswith('value'):
                return log, ('return', state['conform_value'])
    beh = custom.split(':')[1] if custom not in ('none', 'other-only:default') else None
    res = None
    if beh in ('none', 'value', 'raise'):
        log.append('adapt')
        if beh == 'raise':
            return log, ('raise', state['adapt_exc'])
        if beh == 'value':
            return log, ('return', state['adapt_value'])
    else:
        if beh == 'super':
            log.append('adapt')
        if provided != 'no':
            return log, ('return', obj)
        for n, h in enumerate(hooks):
            log.append('hook%d' % n)
            if h == 'V':
                return log, ('return', state['hook_values'][n])
            if h == 'R':
                return log, ('raise', state['hook_excs'][n])
    if direct_adapt:
        return log, ('return', None)
    if alt == 'given':
        return log, ('return', state['alt'])
    if alt == 'none':
        return log, ('return', None)
    return log, ('could-not-adapt',)


def observe(fn):
    try:
        return ('return', fn())
    except BaseException as e:   # noqa
        return ('raise', e)


class Falsy:
    """A result that is false in a boolean context (only None means "no result")."""

    def __bool__(self):
        return False


class Sizeless:
    def __len__(self):
        return 0


class Unjudgeable:
    """Nobody has any business asking for the truth value of a result."""

    def __bool__(self):
        raise AssertionError('truth value of an adaptation result was taken')


def mkval(style, role):
    """A value for one role of a case; distinct roles get distinct objects in every style."""
    if style == 1:
        return Falsy()
    if style == 2:
        return {'conform': 0, 'adapt': '', 'alt': False}.get(role, ()) if not role.startswith('hook') else [(), 0.0, b''][int(role[4:]) % 3]
    if style == 3:
        return Unjudgeable()
    if style == 4:
        return Sizeless()
    return object()


def matches(exp, got, obj, iface):
    if exp[0] == 'could-not-adapt':
        return got[0] == 'raise' and type(got[1]) is TypeError and len(got[1].args) == 3 and \
            got[1].args[0] == 'Could not adapt' and got[1].args[1] is obj and got[1].args[2] is iface
    return got[0] == exp[0] and got[1] is exp[1]


def run_case(ctx, rng, job):
    prod = product(job['tier'])
    nchunks = job['cases'] * job['nshards']
    me = job['shard'] * job['cases'] + ctx.case
    saved = list(zi.adapter_hooks)
    try:
        for idx in range(me, len(prod), nchunks):
            conform, provided, hooks, alt, custom = prod[idx]
            log = []
            st = idx % 5
            ctx.count('value_style[%d]' % st)
            # what hooks and a custom __adapt__ raise is of the kinds the machinery itself looks out for elsewhere
            # (AttributeError for a missing __conform__, TypeError for an unbound one): none of them may be swallowed here
            ek = [Marker, AttributeError, TypeError, KeyError, LookupError][(idx // 5) % 5]
            ctx.count('exception_kind_from_hooks_and_adapt[%s]' % ek.__name__)
            state = {'conform_value': mkval(st, 'conform'), 'adapt_value': mkval(st, 'adapt'), 'alt': mkval(st, 'alt'),
                     'hook_values': [mkval(st, 'hook%d' % n) for n in range(len(hooks))],
                     'hook_excs': [ek('hook%d' % n) for n in range(len(hooks))],
                     'adapt_exc': ek('adapt')}
            if conform.startswith(('raise-', 'get-')):
                state['conform_exc'] = EXC[conform.split('-')[1]]('from conform')
            iface = build_iface(custom, log, state)
            obj = build_obj(conform, provided, iface, log, state)
            hs = []
            for n, h in enumerate(hooks):
                def hook(i, o, n=n, h=h):
                    log.append('hook%d' % n)
                    state.setdefault('hook_args_ok', True)
                    if i is not iface or o is not obj:
                        state['hook_args_ok'] = False
                    if h == 'V':
                        return state['hook_values'][n]
                    if h == 'R':
                        raise state['hook_excs'][n]
                    return None
                hs.append(hook)
            zi.adapter_hooks[:] = hs
            elog, eout = reference(conform, provided, hooks, alt, custom, obj, iface, state)
            del log[:]
            if alt == 'absent':
                got = observe(lambda: iface(obj))
            elif alt == 'given':
                got = observe(lambda: iface(obj, state['alt']))
            else:
                got = observe(lambda: iface(obj, None))
            ctx.ev()
            ctx.count('call_cases')
            ok = matches(eout, got, obj, iface) and log == elog and state.get('hook_args_ok', True) and state.get('conform_arg_ok', True)
            if not ok:
                mech = None
                if ctx.mode == 'c' and custom.split(':')[0] in ('inherited2', 'inherited-deep', 'kind-derived'):
                    mech = 'custom_adapt_marker_not_inherited'
                ctx.violation('adaptation-order', {'case': [conform, provided, ''.join(hooks), alt, custom],
                                                   'expected_log': elog, 'log': list(log), 'expected': eout[0],
                                                   'got': [got[0], repr(got[1])[:120]]}, mechanism=mech, abort=False)
            ctx.shape((tuple(elog), eout[0]), nontrivial=len(elog) >= 1)
            # keyword form of alternate
            if alt == 'given' and idx % 7 == 0:
                del log[:]
                got = observe(lambda: iface(obj, alternate=state['alt']))
                ctx.ev()
                if not (matches(eout, got, obj, iface) and log == elog):
                    ctx.violation('adaptation-order-keyword-alternate', {'case': [conform, provided, ''.join(hooks), alt, custom]}, abort=False)
            # I.__adapt__(obj) directly
            elog2, eout2 = reference(conform, provided, hooks, alt, custom, obj, iface, state, direct_adapt=True)
            del log[:]
            got = observe(lambda: iface.__adapt__(obj))
            ctx.ev()
            ctx.count('adapt_cases')
            if not (matches(eout2, got, obj, iface) and log == elog2):
                ctx.violation('__adapt__-order', {'case': [conform, provided, ''.join(hooks), custom], 'expected_log': elog2,
                                                  'log': list(log), 'got': [got[0], repr(got[1])[:120]]}, abort=False)
            if custom == 'other-only:default' and (idx // len(CUSTOM)) % 8 == 0:
                # dropped and collected before the next interface class is made
                del iface, obj, hs
                zi.adapter_hooks[:] = []
                import gc
                gc.collect()
                gc.collect()
                ctx.count('interface_classes_collected_between_cases')
            if ctx.case == 0 and len(ctx.samples) < 3 and len(elog) >= 2:
                ctx.sample({'mode': ctx.mode, 'case': [conform, provided, ''.join(hooks), alt, custom], 'expected_log': elog, 'outcome': eout[0]})
    finally:
        zi.adapter_hooks[:] = saved
    if ctx.case == 0:
        registry_hook(ctx, rng)
        class_objects(ctx)
        reentrant_hooks(ctx)


def registry_hook(ctx, rng):
    """With a registry's adapter_hook installed, I(obj) == registry.queryAdapter(obj, I)."""
    saved = list(zi.adapter_hooks)
    try:
        # the hook is installed once (a bound entry point of the registry, as applications do at start-up); the registry is
        # rebuilt later and then loses a registration
        for Reg_ in (AdapterRegistry, VerifyingAdapterRegistry):
            mod_ = util.fresh_module()
            IFoo, IBar = util.mkiface('IFoo', module=mod_), util.mkiface('IBar', module=mod_)
            Kf = type('Foo', (), {})
            classImplements(Kf, IFoo)
            foo = Kf()
            reg_ = Reg_()
            fac_ = lambda o: ('adapted', id(o))      # noqa: E731
            reg_.register([IFoo], IBar, '', fac_)
            zi.adapter_hooks[:] = [reg_.adapter_hook]
            first = IBar(foo, None)
            reg_.rebuild()
            reg_.unregister([IFoo], IBar, '', fac_)
            ctx.ev()
            ctx.count('registry_hook_kept_across_rebuild')
            got, exp = IBar(foo, None), reg_.queryAdapter(foo, IBar)
            if first is None or got != exp:
                ctx.violation('registry-hook-vs-queryAdapter', {'after': 'rebuild() of the registry whose adapter_hook was installed before, then unregister',
                                                                 'got': repr(got), 'expected': repr(exp)},
                              mechanism='entry_point_kept_across_rebuild', abort=False)
        for n_world in range(40):
            # plain registries, and verifying ones below a base that changes between the questions
            base = VerifyingAdapterRegistry() if n_world % 2 else None
            reg = VerifyingAdapterRegistry((base,)) if base is not None else AdapterRegistry()
            zi.adapter_hooks[:] = [reg.adapter_hook]
            R = util.gen_iface_dag(rng, rng.randint(2, 5), prefix='R', maxb=2)
            T = util.gen_iface_dag(rng, rng.randint(1, 3), prefix='T', maxb=1)
            classes = []
            for i in range(3):
                c = type('K%d' % i, tuple(classes[:rng.randint(0, len(classes))][:1]) or (object,), {})
                classImplements(c, *rng.sample(R, rng.randint(0, 2)))
                classes.append(c)
            for _r in range(rng.randint(1, 6)):
                r = rng.choice(R)
                t = rng.choice(T)
                ret = rng.random() < 0.8

                def fac(o, tag=(r.__name__, t.__name__), ret=ret):
                    return ('adapted', tag, id(o)) if ret else None
                (reg if base is None or rng.random() < 0.5 else base).register([r], t, '', fac)
            other = type(reg)()
            for _r in range(rng.randint(1, 3)):
                r, t = rng.choice(R), rng.choice(T)
                other.register([r], t, '', (lambda o, tag=('other', r.__name__, t.__name__): ('adapted', tag, id(o))))
            for _q in range(12):
                if rng.random() < 0.25:
                    # the registry whose hook was installed at the start gets other bases (and back), or loses a
                    # registration: the installed hook keeps speaking for the registry as it is now
                    if rng.random() < 0.6:
                        cur = reg.__bases__
                        reg.__bases__ = (other,) if other not in cur else ((base,) if base is not None else ())
                        ctx.count('registry_hook_rebasings')
                    else:
                        r_, t_ = rng.choice(R), rng.choice(T)
                        reg.unregister([r_], t_, '')
                if base is not None and rng.random() < 0.5:
                    # something changes above the registry whose hook is installed; then queryAdapter() is asked
                    # *first* (warm cache), the interface call second - they must agree
                    r_, t_ = rng.choice(R), rng.choice(T)
                    base.register([r_], t_, '', (lambda o, tag=('late', r_.__name__, t_.__name__, _q): ('adapted', tag, id(o))))
                    ctx.count('registry_hook_changes_above')
                o = rng.choice(classes)()
                if rng.random() < 0.3:
                    directlyProvides(o, rng.choice(R))
                t = rng.choice(T)
                alt = mkval(rng.randrange(5), 'alt')
                exp = reg.queryAdapter(o, t, '', alt)
                if t.providedBy(o):
                    exp = o
                got = t(o, alt)
                ctx.ev()
                ctx.count('registry_hook_cases')
                if got != exp and got is not exp:
                    ctx.violation('registry-hook-vs-queryAdapter', {'got': repr(got), 'expected': repr(exp)}, abort=False)
                exp2 = reg.queryAdapter(o, t)
                if exp2 is None and not t.providedBy(o):
                    try:
                        t(o)
                        ctx.violation('registry-hook-no-typeerror', {}, abort=False)
                    except TypeError:
                        pass
    finally:
        zi.adapter_hooks[:] = saved


def class_objects(ctx):
    """Adapting a class whose *instances* have __conform__: the unbound method cannot be called with the
    interface alone; the source documents that this counts as "no __conform__" (the one accommodation), while a
    TypeError from the body of a callable __conform__ (a classmethod here) still propagates."""
    saved = list(zi.adapter_hooks)
    try:
        for kind in ('unbound', 'classmethod-value', 'classmethod-raise-TypeError'):
            for provided in ('no', 'direct'):
                for hooks in hook_seqs(2):
                    for alt in ALT:
                        log = []
                        st = (len(hooks) + hooks.count('V')) % 5
                        state = {'conform_value': mkval(st, 'conform'), 'alt': mkval(st, 'alt'), 'conform_exc': TypeError('from conform'),
                                 'hook_values': [mkval(st, 'hook%d' % n) for n in range(len(hooks))],
                                 'hook_excs': [Marker('hook%d' % n) for n in range(len(hooks))]}
                        iface = InterfaceClass('IT', (Interface,), {}, __module__=util.fresh_module())
                        if kind == 'unbound':
                            def __conform__(self, proto):
                                log.append('conform')
                                return state['conform_value']
                            ref_conform = 'absent'
                        else:
                            def conform_cm(cls_, proto):
                                log.append('conform')
                                if kind.endswith('TypeError'):
                                    raise state['conform_exc']
                                return state['conform_value']
                            __conform__ = classmethod(conform_cm)
                            ref_conform = 'raise-TypeError' if kind.endswith('TypeError') else 'value'
                        cls = type('Obj', (object,), {'__conform__': __conform__})
                        if provided == 'direct':
                            directlyProvides(cls, iface)
                        hs = []
                        for n, h in enumerate(hooks):
                            def hook(i, o, n=n, h=h):
                                log.append('hook%d' % n)
                                if h == 'V':
                                    return state['hook_values'][n]
                                if h == 'R':
                                    raise state['hook_excs'][n]
                                return None
                            hs.append(hook)
                        zi.adapter_hooks[:] = hs
                        elog, eout = reference(ref_conform, provided, hooks, alt, 'none', cls, iface, state)
                        if alt == 'absent':
                            got = observe(lambda: iface(cls))
                        elif alt == 'given':
                            got = observe(lambda: iface(cls, state['alt']))
                        else:
                            got = observe(lambda: iface(cls, None))
                        ctx.ev()
                        ctx.count('class_object_cases')
                        if not (matches(eout, got, cls, iface) and log == elog):
                            ctx.violation('adaptation-order-class-object',
                                          {'case': [kind, provided, ''.join(hooks), alt], 'expected_log': elog, 'log': list(log),
                                           'expected': eout[0], 'got': [got[0], repr(got[1])[:120]]}, abort=False)
    finally:
        zi.adapter_hooks[:] = saved


def reentrant_hooks(ctx):
    """Hooks that adapt something else themselves before answering (what a registry's adapter_hook does when a factory
    adapts its argument): the nested adaptation runs the whole hook list for *its* arguments, and afterwards the outer
    adaptation must go on with the outer (interface, object) - hook N+1 is still called as hook(I, obj)."""
    saved = list(zi.adapter_hooks)
    try:
        # E: re-enters adaptation; S: removes the hooks after itself from the list; G: appends another hook to the list
        # (a hook that unregisters hooks, or registers one, while the list is being walked: the walk goes by the list
        # as it is at each step, like a Python for loop)
        seqs = [h for n in (2, 3) for h in itertools.product('NVRESG', repeat=n) if set(h) & set('ESG')]
        for hooks in seqs:
            for alt in ('absent', 'given'):
                log = []
                mod = util.fresh_module()
                iface = InterfaceClass('IT', (Interface,), {}, __module__=mod)
                inner = InterfaceClass('IInner', (Interface,), {}, __module__=mod)
                obj, obj2 = type('Obj', (object,), {})(), type('Obj2', (object,), {})()
                st = (len(hooks) + hooks.count('V') + (alt == 'given')) % 5
                state = {'alt': mkval(st, 'alt'), 'hook_values': [mkval(st, 'hook%d' % n) for n in range(len(hooks))],
                         'hook_excs': [Marker('hook%d' % n) for n in range(len(hooks))], 'bad_args': []}
                hs = []
                for n, h in enumerate(hooks):
                    def hook(i, o, n=n, h=h):
                        if i is inner and o is obj2:
                            log.append('nested-hook%d' % n)
                            return None
                        log.append('hook%d' % n)
                        if i is not iface or o is not obj:
                            state['bad_args'].append((n, getattr(i, '__name__', repr(i)), type(o).__name__))
                        if h == 'E':
                            if inner(obj2, None) is not None:
                                state['bad_args'].append((n, 'nested adaptation returned something'))
                            return None
                        if h == 'S':
                            del zi.adapter_hooks[n + 1:]
                            return None
                        if h == 'G':
                            def grown(i2, o2, n=n):
                                if i2 is inner and o2 is obj2:
                                    log.append('nested-grown%d' % n)
                                    return None
                                log.append('grown%d' % n)
                                return state['hook_values'][n]
                            zi.adapter_hooks.append(grown)
                            return None
                        if h == 'V':
                            return state['hook_values'][n]
                        if h == 'R':
                            raise state['hook_excs'][n]
                        return None
                    hs.append(hook)
                zi.adapter_hooks[:] = hs
                # reference: walk a model of the list the way a for loop does
                elog, eout = [], None
                live = [('hook', n, h) for n, h in enumerate(hooks)]
                i_ = 0
                while i_ < len(live) and eout is None:
                    kind_, n, h = live[i_]
                    i_ += 1
                    if kind_ == 'grown':
                        elog.append('grown%d' % n)
                        eout = ('return', state['hook_values'][n])
                        break
                    elog.append('hook%d' % n)
                    if h == 'E':
                        elog.extend(('nested-hook%d' % m) if k_ == 'hook' else ('nested-grown%d' % m) for k_, m, _h in live)
                    elif h == 'S':
                        del live[i_:]
                    elif h == 'G':
                        live.append(('grown', n, None))
                    elif h == 'V':
                        eout = ('return', state['hook_values'][n])
                    elif h == 'R':
                        eout = ('raise', state['hook_excs'][n])
                if eout is None:
                    eout = ('return', state['alt']) if alt == 'given' else ('could-not-adapt',)
                got = observe((lambda: iface(obj, state['alt'])) if alt == 'given' else (lambda: iface(obj)))
                ctx.ev()
                ctx.count('reentrant_hook_cases')
                if not (matches(eout, got, obj, iface) and log == elog and not state['bad_args']):
                    ctx.violation('adaptation-order-reentrant-hooks',
                                  {'hooks': ''.join(hooks), 'alt': alt, 'expected_log': elog, 'log': list(log),
                                   'wrong_arguments': state['bad_args'][:3], 'expected': eout[0],
                                   'got': [got[0], repr(got[1])[:120]]}, abort=False)
    finally:
        zi.adapter_hooks[:] = saved
