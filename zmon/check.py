"""Driver.  usage (cwd=/verif):

    /venv/bin/python -m zmon.check C07 --tier quick|thorough
    /venv/bin/python -m zmon.check C07 --replay replays/C07-....json
    /venv/bin/python -m zmon.check --selfcheck

exit 0  property held on everything explored (KNOWN-FINDING lines for listed findings)
exit 1  VIOLATION property=<id> replay=<path>
exit 2  INCONCLUSIVE property=<id> reason=...
"""
import argparse
import concurrent.futures
import json
import os
import shutil
import signal
import subprocess
import sys
import tempfile
import time

HERE = os.path.dirname(os.path.abspath(__file__))
VERIF = os.path.dirname(HERE)
PY = sys.executable
sys.path.insert(0, VERIF)

from zmon import build, plans  # noqa: E402

NCPU = int(os.environ.get('VERIF_JOBS', os.cpu_count() or 4))


def load_known():
    try:
        with open(os.path.join(VERIF, 'known_findings.json')) as f:
            return json.load(f).get('findings', [])
    except FileNotFoundError:
        return []


def worker_env(job, so):
    env = dict(os.environ)
    env.pop('PYTHONPATH', None)
    env['PYTHONPATH'] = VERIF
    env['PYTHONHASHSEED'] = str(job.get('hashseed', 0))
    env['PURE_PYTHON'] = '0' if job['mode'] == 'c' else '1'
    env['PYTHONDONTWRITEBYTECODE'] = '1'
    for k in ('ZOPE_INTERFACE_STRICT_IRO', 'ZOPE_INTERFACE_LOG_CHANGED_IRO',
              'ZOPE_INTERFACE_USE_LEGACY_IRO', 'ZOPE_INTERFACE_STRICT_RO',
              'ZOPE_INTERFACE_LOG_CHANGED_RO', 'ZOPE_INTERFACE_USE_LEGACY_RO'):
        env.pop(k, None)
    if job['mode'] == 'c':
        env['ZI_SO'] = so
    else:
        env.pop('ZI_SO', None)
    env.update(job.get('env', {}))
    return env


def run_worker(job, so, tmp, asan_rt=None):
    tag = '%s-%s-%s-%s' % (job['prop'], job['mode'], job.get('cfgname', ''), job['shard'])
    jf = os.path.join(tmp, tag + '.job.json')
    of = os.path.join(tmp, tag + '.out.json')
    with open(jf, 'w') as f:
        json.dump(job, f)
    env = worker_env(job, so)
    cmd = [PY, '-X', 'faulthandler', '-m', 'zmon.worker', jf, of]
    runner = job.get('runner', 'native')
    vlog = None
    if runner == 'valgrind':
        env['PYTHONMALLOC'] = 'malloc'
        vlog = os.path.join(tmp, tag + '.vg.log')
        cmd = ['valgrind', '--tool=memcheck', '--error-exitcode=99', '--num-callers=30',
               '--log-file=' + vlog, '--suppressions=' + os.path.join(HERE, 'valgrind.supp'),
               '--errors-for-leak-kinds=none', '--leak-check=no'] + cmd
    elif runner == 'asan':
        env['PYTHONMALLOC'] = 'malloc'
        env['LD_PRELOAD'] = asan_rt or ''
        env['ASAN_OPTIONS'] = 'detect_leaks=0:halt_on_error=1:abort_on_error=1:allocator_may_return_null=1'
        env['UBSAN_OPTIONS'] = 'halt_on_error=1:print_stacktrace=1'
    t0 = time.time()
    try:
        p = subprocess.run(cmd, env=env, cwd=VERIF, capture_output=True, text=True,
                           timeout=job.get('timeout_s', 900 if job.get('tier') == 'quick' else 3600))
        rc, so_, se_ = p.returncode, p.stdout, p.stderr
    except subprocess.TimeoutExpired as e:
        return {'job': job, 'status': 'inconclusive', 'reason': 'watchdog %ss' % job.get('timeout_s', 900 if job.get('tier') == 'quick' else 3600),
                'stdout': (e.stdout or b'')[-2000:].decode('utf8', 'replace') if isinstance(e.stdout, bytes) else str(e.stdout)[-2000:]}
    res = None
    if os.path.exists(of):
        try:
            with open(of) as f:
                res = json.load(f)
        except Exception:
            res = None
    if res is None:
        res = {'job': job, 'status': 'crash'}
    res['rc'] = rc
    res['elapsed'] = time.time() - t0
    if job.get('trace'):
        sys.stdout.write(so_)
    if rc != 0:
        res['stderr'] = se_[-6000:]
        if vlog and os.path.exists(vlog):
            with open(vlog, errors='replace') as f:
                res['valgrind_log'] = f.read()[-12000:]
        if res.get('status') == 'ok':
            res['status'] = 'crash'    # result written but process died afterwards (or sanitizer exit code)
    return res


def expand(prop, tier, seed, only=None):
    plan = plans.PLANS[prop]
    jobs = []
    for j in plan['jobs'](tier):
        shards = j.pop('shards', 1)
        for k in range(shards):
            jj = dict(j)
            jj.update(prop=prop, tier=tier, seed=seed, shard=k, engine=j.get('engine', plan['engine']))
            jobs.append(jj)
    return jobs


def classify(prop, rec, known):
    for e in known:
        if e.get('property') == prop and e.get('status') == 'known' and e.get('mechanism') == rec.get('mechanism'):
            return e
    return None


def main(argv=None):
    ap = argparse.ArgumentParser()
    ap.add_argument('prop', nargs='?')
    ap.add_argument('--tier', default=os.environ.get('VERIF_TIER', 'quick'), choices=['quick', 'thorough'])
    ap.add_argument('--replay')
    ap.add_argument('--selfcheck', action='store_true')
    ap.add_argument('--no-evidence', action='store_true')
    a = ap.parse_args(argv)
    if a.selfcheck:
        return selfcheck()
    prop = a.prop
    seed = int(os.environ.get('VERIF_SEED', '0') or 0)
    t0 = time.time()
    tmp = tempfile.mkdtemp(prefix='zmon-run-')
    try:
        return run(prop, a, seed, t0, tmp)
    finally:
        shutil.rmtree(tmp, True)


def run(prop, a, seed, t0, tmp):
    plan = plans.PLANS[prop]
    known = load_known()
    if a.replay:
        with open(a.replay) as f:
            rp = json.load(f)
        job = rp['job']
        job['only_case'] = rp['case']
        job['trace'] = True
        job['cases'] = 0
        job.pop('budget_s', None)
        jobs = [job]
        tier = job['tier']
    else:
        tier = a.tier
        jobs = expand(prop, tier, seed)
        if os.environ.get('ZMON_ONLY_CFG'):      # development aid: run the jobs of some configurations only
            jobs = [j for j in jobs if j.get('cfgname') in os.environ['ZMON_ONLY_CFG'].split(',')]
    kinds = sorted({j.get('build', 'opt') for j in jobs if j['mode'] == 'c'})
    sos, build_err = {}, None
    for k in kinds:
        so, err = build.build(k)
        if so is None:
            build_err = err
        sos[k] = so
    asan_rt = build.asan_runtime() if 'asan' in kinds else None
    results = []
    runnable = []
    for j in jobs:
        if j['mode'] == 'c' and sos.get(j.get('build', 'opt')) is None:
            results.append({'job': j, 'status': 'inconclusive', 'reason': 'extension did not compile: ' + (build_err or '')[-500:]})
        else:
            runnable.append(j)
    with concurrent.futures.ThreadPoolExecutor(max_workers=NCPU) as ex:
        futs = [ex.submit(run_worker, j, sos.get(j.get('build', 'opt')), tmp, asan_rt) for j in runnable]
        for f in futs:
            results.append(f.result())
    # ---- aggregate -------------------------------------------------------
    counters, shapes, samples, per_job = {}, set(), [], []
    viols, incon = [], []
    for r in results:
        j = r['job']
        st = r.get('status')
        for k, v in r.get('counters', {}).items():
            counters[k] = counters.get(k, 0) + v
            mk = '%s[%s]' % (k, j['mode'])
            counters[mk] = counters.get(mk, 0) + v
        shapes.update(r.get('shapes', []))
        if len(samples) < 6:
            samples.extend(r.get('samples', [])[:2])
        per_job.append({'mode': j['mode'], 'cfg': j.get('cfgname', ''), 'shard': j['shard'],
                        'runner': j.get('runner', 'native'), 'status': st,
                        'cases': r.get('counters', {}).get('cases', 0),
                        'evaluations': r.get('counters', {}).get('evaluations', 0),
                        'wall_s': round(r.get('wall_s', r.get('elapsed', 0)), 2)})
        for v in r.get('violations', []):
            viols.append((j, v))
        if st == 'crash':
            # the process died (signal, sanitizer report): in c mode this is a violation
            # of the property being exercised (the call did not return its answer).
            rec = {'kind': 'process-died', 'mechanism': None, 'case': None,
                   'detail': {'rc': r.get('rc'), 'stderr': r.get('stderr', '')[-3000:],
                              'valgrind': r.get('valgrind_log', '')[-6000:]}}
            if hasattr(plans, 'classify_crash'):
                rec['mechanism'] = plans.classify_crash(prop, j, r)
            viols.append((j, rec))
        elif st in ('inconclusive', 'error'):
            incon.append('%s/%s/%s: %s' % (j['mode'], j.get('cfgname', ''), j['shard'], str(r.get('reason', ''))[-1500:]))
    if plan.get('cross_check') and not a.replay:
        for j, v in plan['cross_check'](results, counters):
            viols.append((j, v))
    mins = plan.get('minimums', lambda t: {})(tier)
    if not a.replay:
        for k, m in mins.items():
            if counters.get(k, 0) < m:
                incon.append('counter %s=%s below floor %s' % (k, counters.get(k, 0), m))
    unknown, knownhits = [], {}
    for j, v in viols:
        e = classify(prop, v, known)
        if e is None:
            unknown.append((j, v))
        else:
            knownhits.setdefault(e['mechanism'], [e, 0])[1] += 1
    wall = time.time() - t0
    # ---- evidence --------------------------------------------------------
    if not a.replay and not a.no_evidence:
        ev = {
            'property_id': prop, 'tier': tier, 'seed': seed, 'level': plan['level'],
            'coverage': {
                'evaluations': int(counters.get('evaluations', 0)),
                'distinct_nontrivial': len(shapes),
                'rule': plan['rule'],
                'samples': samples or ['(no sample recorded)'],
                'counters': {k: counters[k] for k in sorted(counters)},
                'jobs': per_job,
                'exhaustive': bool(plan.get('exhaustive', False)),
                'known_findings_observed': {k: n for k, (e, n) in knownhits.items()},
                'inconclusive_reasons': incon,
                'minimums': mins,
            },
            'assumptions': plan.get('assumptions', []),
            'wall_s': round(wall, 2),
            'violations': len(unknown),
        }
        os.makedirs(os.path.join(VERIF, 'evidence'), exist_ok=True)
        with open(os.path.join(VERIF, 'evidence', prop + '.json'), 'w') as f:
            json.dump(ev, f, indent=1, sort_keys=True, default=str)
    # ---- verdict ---------------------------------------------------------
    print('%s tier=%s seed=%s jobs=%d evaluations=%s distinct_nontrivial=%d wall=%.1fs' % (
        prop, tier, seed, len(jobs), counters.get('evaluations', 0), len(shapes), wall))
    for mech, (e, n) in sorted(knownhits.items()):
        print('KNOWN-FINDING: property=%s %s [%s; observed %d times]' % (prop, e['what'], mech, n))
    if unknown:
        os.makedirs(os.path.join(VERIF, 'replays'), exist_ok=True)
        seen = set()
        for n, (j, v) in enumerate(unknown):
            key = (j['mode'], j.get('cfgname', ''), v.get('kind'), v.get('mechanism'))
            if key in seen and n >= 3:
                continue
            seen.add(key)
            path = os.path.join('replays', '%s-%s-%s-%s-s%d-c%s.json' % (
                prop, j['mode'], j.get('cfgname', '') or 'default', seed, j['shard'], v.get('case')))
            jj = dict(j)
            with open(os.path.join(VERIF, path), 'w') as f:
                json.dump({'property': prop, 'job': jj, 'case': v.get('case'), 'record': v}, f, indent=1, default=str)
            print('VIOLATION property=%s replay=%s' % (prop, path))
            print('  kind=%s mode=%s cfg=%s detail=%s' % (v.get('kind'), j['mode'], j.get('cfgname', ''), json.dumps(v.get('detail'), default=str)[:1200]))
            if len(seen) >= 8:
                break
        return 1
    if incon:
        print('INCONCLUSIVE property=%s reason=%s' % (prop, ' | '.join(incon)[:3000]))
        return 2
    return 0


def selfcheck():
    ok = True
    for tool in ('gcc', 'clang', 'valgrind'):
        if shutil.which(tool) is None:
            print('missing tool', tool)
            ok = False
    so, err = build.build('opt')
    if so is None:
        print('extension does not build:', err)
        ok = False
    p = subprocess.run([PY, '-c', 'from zmon import _boot; print(_boot.verify_mode())'],
                       env=worker_env({'mode': 'py'}, None), cwd=VERIF, capture_output=True, text=True)
    print('py import:', p.stdout.strip(), p.stderr.strip()[-300:])
    ok = ok and p.returncode == 0
    if so:
        p = subprocess.run([PY, '-c', 'from zmon import _boot; print(_boot.verify_mode())'],
                           env=worker_env({'mode': 'c'}, so), cwd=VERIF, capture_output=True, text=True)
        print('c import:', p.stdout.strip(), p.stderr.strip()[-300:])
        ok = ok and p.returncode == 0
    print('selfcheck', 'ok' if ok else 'FAILED')
    return 0 if ok else 1


if __name__ == '__main__':
    sys.exit(main())
