"""Per-worker monitor state: counters, distinct shapes, samples, violations."""
import collections
import hashlib
import json

MAX_VIOL = 12
MAX_SAMPLES = 3


class CaseAbort(Exception):
    """Raised by Ctx.violation to end the current case."""


def h(obj):
    return hashlib.sha1(json.dumps(obj, sort_keys=True, default=str).encode()).hexdigest()[:16]


class Ctx:
    def __init__(self, prop, tier, mode, cfg, trace=False):
        self.prop, self.tier, self.mode, self.cfg = prop, tier, mode, cfg
        self.trace = trace
        self.counters = collections.Counter()
        self.shapes = set()          # distinct non-trivial shapes (hashes)
        self.all_shapes = set()
        self.samples = []
        self.violations = []
        self.viol_total = 0
        self.case = None
        self.log = []                # symbolic op log of the current case
        self.extra = {}              # engine-specific payload handed to the driver (cross-process checks)

    # -- bookkeeping -----------------------------------------------------
    def begin_case(self, idx):
        self.case = idx
        self.log = []
        self.counters['cases'] += 1

    def op(self, *rec):
        self.log.append(rec)
        if self.trace:
            print('  op', len(self.log), rec, flush=True)

    def ev(self, n=1):
        self.counters['evaluations'] += n

    def count(self, name, n=1):
        self.counters[name] += n

    def shape(self, key, nontrivial=True):
        k = h(key)
        self.all_shapes.add(k)
        if nontrivial:
            self.shapes.add(k)

    def sample(self, obj):
        if len(self.samples) < MAX_SAMPLES:
            self.samples.append(obj)

    def violation(self, kind, detail, mechanism=None, abort=True):
        self.viol_total += 1
        if len(self.violations) < MAX_VIOL:
            self.violations.append({
                'kind': kind, 'detail': detail, 'mechanism': mechanism,
                'case': self.case, 'log_tail': [list(map(str, r)) for r in self.log[-25:]],
                'log_len': len(self.log),
            })
        if self.trace:
            print('  VIOLATION', kind, detail, mechanism, flush=True)
        if abort:
            raise CaseAbort()

    def result(self):
        return {
            'counters': dict(self.counters),
            'shapes': sorted(self.shapes),
            'n_all_shapes': len(self.all_shapes),
            'samples': self.samples,
            'violations': self.violations,
            'viol_total': self.viol_total,
            'extra': self.extra,
        }
