"""Per-property plans: which engine, which jobs per tier, floors, rule text."""

PLANS = {}


def both(tier, quick, thorough, **kw):
    """Jobs in py and c mode: (shards, cases) per tier."""
    shards, cases = quick if tier == 'quick' else thorough
    return [dict(mode=m, shards=shards, cases=cases, **kw) for m in ('py', 'c')]


def _decl_jobs(tier):
    return both(tier, (16, 800), (16, 8000))


PLANS['C01'] = dict(
    engine='decl', level='exploration', jobs=_decl_jobs,
    minimums=lambda t: {'evaluations': 20000, 'histories_with_narrowing': 20, 'nlp': 20, 'declarations_on_object': 20, 'classes_with_a_provides_slot': 100,
                        'direct_declarations_with_class_specification': 100, 'factory_declarations_on_instances': 100},
    rule='Seeded random histories over generated interface DAGs and class DAGs (multiple inheritance): '
         'class creation with/without decorators, instance creation, implementer, implementer_only, '
         'classImplements, classImplementsOnly, classImplementsFirst, directlyProvides, alsoProvides, '
         'noLongerProvides, provider, gc; class specifications among direct declarations, callable instances declared as factories, '
         'declarations on ``object``; histories queried after every step, only now and then, or only at the end.  At a check point every live class and instance is queried '
         '(providedBy, implementedBy, I.providedBy, I.implementedBy, directlyProvidedBy) and compared with '
         'the must/may reference model.  evaluations = oracle comparisons.  A history is non-trivial when it '
         'narrows a class with an *only* form or declares on a class that already has subclasses or '
         'instances; distinct = distinct op-kind sequences among those.',
    assumptions=['reference model of DESIGN 3.1 (must/may bounds; redundancy decided from validated answers)',
                 'interfaces have process-unique (name, module)'],
)
PLANS['C19'] = dict(
    engine='decl', level='exploration', jobs=_decl_jobs,
    minimums=lambda t: {'super_queries': 5000, 'super_adaptations_hit': 200,
                        'histories_changed_after_first_super_query': 20},
    rule='Same histories as C01; after a seeded subset of steps every (C, ob) pair along every MRO is queried: '
         'providedBy(super(C, ob)), implementedBy(super(C, ob)), I.providedBy(proxy) and '
         'registry.queryAdapter(proxy, ITarget) and queryMultiAdapter((proxy,), ITarget) with recording factories; expected = must/may bounds of the '
         'classes strictly after C in the MRO; the factory must be the first registered one along the proxy '
         'specification order and must receive the underlying object.  Non-trivial: a class declaration '
         'changed after the first proxy query (warm per-class cache) and some MRO has >= 3 classes.',
    assumptions=['C01 reference model', 'adapter selection order read from providedBy(proxy).__sro__ after it was validated against the bounds'],
)


PLANS['C20'] = dict(
    engine='algebra', level='exploration', jobs=lambda tier: both(tier, (16, 600), (16, 6000)),
    minimums=lambda t: {'pairs': 5000, 'pairs_A_extends_B': 300, 'pairs_B_extends_A': 300, 'noLongerProvides': 100},
    rule='Declarations built from arbitrarily nested argument sequences (tuples, lists, Declarations, class '
         'specifications, duplicates, one-shot iterables) over generated interface DAGs, plus the shared empty declaration and an equal-keyed '
         'redefinition of an interface as operands; for every declaration: iteration, membership, '
         'flattened(); for every ordered pair (plus single-interface operands): A-B, A+B and operand immutability, '
         'against list algebra over DFS reachability.  evaluations = oracle comparisons.  Non-trivial: the world has a '
         'pair of operands related by extension; distinct = distinct (length, nesting depth, ancestor-count profile).',
    assumptions=['A+B: a new element of B that extends only an earlier new element of B may sit on either side (DESIGN 3.20)'],
)


def cfg_jobs(tier, quick, thorough, cfgs, modes=('py', 'c')):
    shards, cases = quick if tier == 'quick' else thorough
    out = []
    for m in modes:
        for name, env in cfgs:
            out.append(dict(mode=m, shards=shards, cases=cases, cfgname=name, env=env))
    return out


_STRICT = ('strict', {'ZOPE_INTERFACE_STRICT_IRO': '1'})
_DEFAULT = ('', {})
_LEGACY = ('legacy', {'ZOPE_INTERFACE_USE_LEGACY_IRO': '1'})
_WARN = ('warn', {'ZOPE_INTERFACE_WARN_BAD_IRO': '1'})
_TRACK = ('track', {'ZOPE_INTERFACE_TRACK_BAD_IRO': '1'})

PLANS['C02'] = dict(
    engine='specgraph', level='exploration',
    jobs=lambda tier: cfg_jobs(tier, (12, 500), (16, 4000), [_DEFAULT]) + cfg_jobs(tier, (4, 400), (8, 3000), [_STRICT]),
    minimums=lambda t: {'pair_checks': 20000, 'rebasings': 200, 'rebasings_changing_indirect_dependent': 50,
                        'twin_comparisons': 2000, 'dependents_collected': 5, 'super_queries_between_rebasings': 50,
                        'providedBy_asked_of_non_interface_specifications': 1000, 'falsy_interfaces': 50},
    rule='Random graphs of interfaces, plain Declarations, class declarations and instance declarations; random '
         '__bases__ reassignments (direct and through the declaration API) at any depth, equal-keyed twin interfaces swapped in and out, '
         'super() queries in between, interfaces that are false in a boolean context, leaf dependents dropped and '
         'collected; after every mutation every ordered pair of live specifications (+ root, empty declaration, foreign '
         'interface) is compared with DFS reachability over current __bases__, and (non-strict) every __sro__ with '
         'that of a freshly built twin graph.  Non-trivial: some rebasing changed the reach set of an indirect '
         'dependent; distinct = distinct final graph shapes.',
    assumptions=['generated graphs are acyclic', 'a re-basing that raised in strict mode ends the history (state unspecified)'],
)
PLANS['C03'] = dict(
    engine='specgraph', level='exploration',
    jobs=lambda tier: cfg_jobs(tier, (8, 600), (16, 2500), [_DEFAULT]) + cfg_jobs(tier, (2, 400), (4, 2000), [_STRICT, _LEGACY, _WARN, _TRACK]),
    minimums=lambda t: {'nodes_checked': 10000, 'consistent_nodes': 3000, 'inconsistent_nodes': 300,
                        'oracle_agreements': 10000, 'legacy_fallback_orders': 100, 'c3_differs_from_dfs': 50,
                        'warning_verdicts': 1000, 'tracking_verdicts': 100, 'synthesized_specifications_checked[super]': 500,
                        'synthesized_specifications_checked[ClassProvides]': 1000, 'assignments_overtaken_by_a_nested_assignment': 50},
    rule='Random ordered DAGs (>= 20% inconsistent nodes in the non-strict configurations) of interfaces, plain and class '
         'declarations with rebasing histories, in configurations default/strict/legacy/warn/track, py and c; every node '
         'after every mutation: validity of __sro__/__iro__, equality with C3 (own merge and CPython type.mro() of a mirrored '
         'class graph, which must agree), ro.ro(strict=True) and is_consistent verdicts.  Non-trivial: graph has a node '
         'with >= 2 bases; distinct = distinct final graph shapes.',
    assumptions=['CPython type.mro() implements C3', 'Interface is never generated as a non-last explicit base'],
)


PLANS['C15'] = dict(
    engine='attrs', level='exploration', jobs=lambda tier: both(tier, (16, 500), (16, 5000)),
    minimums=lambda t: {'name_comparisons': 10000, 'names_defined_by_2plus_ancestors': 1000,
                        'tags_defined_by_2plus_ancestors': 300, 'rebasings_with_warm_memo': 200,
                        'invariants_from_2plus_ancestors': 100, 'verify_consumer_checks': 30, 'redefined_twins_swapped_in': 30, 'rebasings_overlapping_a_query': 100},
    rule='Random interface DAGs in which several ancestors define the same attribute/method names (methods with '
         'different signatures), tags and invariants; every accessor (I[name], get, queryDescriptionFor, in, iter, '
         'names(all), namesAndDescriptions(all), tagged-value queries, validateInvariants with/without list, verifyObject '
         'as a consumer) is compared with first-definition-along-__iro__ computed from the harness\'s own record of '
         'direct definitions; repeated cold, warm, in varying order / for a subset only, after every rebasing and after an ancestor '
         'was replaced by a re-defined interface of the same name and module (equal, not identical), and after a re-basing that '
         'happened while an accessor was running (run from the hashing of the name being looked up)   Non-trivial: some name is defined with '
         'different descriptions by >= 2 interfaces of one __iro__; distinct = distinct (bases, names, tags) worlds.',
    assumptions=['__iro__ itself is decided by C02/C03'],
)


_REG_ASSUME = ['required and provided interfaces come from disjoint DAG families; interfaces have process-unique (name, module)',
               '__sro__ of looked-up specifications is decided by C02/C03 and read by the model']
PLANS['C04'] = dict(
    engine='registry', level='exploration', jobs=lambda tier: both(tier, (16, 1000), (16, 10000)),
    minimums=lambda t: {'lookups': 10000, 'hits': 2000, 'lookups_2plus_candidates': 800,
                        'lookups_candidates_differing_after_first_position': 100,
                        'winner_changed_by_hierarchy_change': 300},
    rule='Random registry chains (both flavours) populated with registrations of arity 0-3, names, None/interface/'
         'class-declaration keys, biased to ties; random lookups (interface, class and instance specifications) compared '
         'with the lexicographic-position reference model; between lookups the hierarchy of the looked-up specifications '
         'changes (class declarations, object declarations, re-basing of required interfaces) and the remembered keys are '
         'asked again against the model over the current resolution orders; evaluations = oracle comparisons.  Non-trivial: a lookup with '
         '>= 2 applicable candidates; distinct = distinct (arity, candidate count, winning registry depth).',
    assumptions=_REG_ASSUME + ['among tied candidates with unrelated provided interfaces any minimal one is accepted'],
)
PLANS['C07'] = dict(
    engine='registry', level='exploration', jobs=lambda tier: both(tier, (16, 1000), (16, 10000)),
    minimums=lambda t: {'subscription_queries': 8000, 'order_pairs': 3000, 'results_from_2plus_registries': 100,
                        'results_with_2plus_keys_in_one_registry': 200, 'unsubscribe_value': 100, 'unsubscribe_all': 100,
                        'unsubscribe_with_None_required': 50, 'adapter_mutations_between_subscriptions': 500,
                        'subscription_queries_repeated_after_a_declaration_change': 500, 'registry_rebasings_between_queries': 100,
                        'rebuilds_between_queries': 100},
    rule='Random subscribe/unsubscribe histories (duplicates, equal-but-distinct and falsy values, handlers, arity 0-3, chains, keys written '
         'with None, adapters registered/overwritten/unregistered on the same provided interfaces, lookup() and lookupAll() next to the queries) and '
         'subscriptions() queries compared with a ledger: multiset equality by identity plus pairwise order rules '
         '(base registry first, less specific key first, FIFO for identical keys).  Non-trivial: result with entries from '
         '>= 2 different keys or registries; distinct = distinct (arity, size, registries, keys) result shapes.',
    assumptions=_REG_ASSUME + ['order is only constrained between comparable keys'],
)
PLANS['C08'] = dict(
    engine='registry', level='exploration', jobs=lambda tier: both(tier, (16, 600), (16, 6000)),
    minimums=lambda t: {'evaluations': 20000, 'valueerror_probes': 3000, 'keys_with_2plus_names': 50,
                        'subscriber_calls_checked': 200, 'super_proxy_keys': 20, 'subscriber_results_falsy_not_none': 100,
                        'changes_between_rounds[registry]': 500, 'changes_between_rounds[class]': 100,
                        'single_object_warmups_before_multi_keys': 100},
    rule='For a registry state and key, the entry points are called in two rounds (a seeded subset, then - after a registration above, a class '
         'or an object declaration - all nine in a new order; each observed cold, warm-by-itself, warm-by-another; the entry point under '
         'test is called before its reference) and compared with lookup()/subscriptions() of the same registry; recording '
         'factories check arguments (super proxies unwrapped) and None results; non-string names must raise ValueError.  '
         'Non-trivial: key with >= 1 registered name; distinct = distinct (arity, names, entry-point order prefix).',
    assumptions=_REG_ASSUME,
)
PLANS['C09'] = dict(
    engine='registry', level='exploration', jobs=lambda tier: both(tier, (16, 600), (16, 6000)),
    minimums=lambda t: {'evaluations': 20000, 'rebuilds': 50, 'replay_probes': 200, 'removals_with_sibling_left': 100,
                        'bookkeeping_queries_with_None_required': 500},
    rule='Random register/unregister/subscribe/unsubscribe/rebuild histories (overwrites, identical re-registration, '
         'register(None), unregister with identical/equal/other value, shared key prefixes, falsy values, keys written with None) compared after every step '
         'with a ledger through registered/allRegistrations/allSubscriptions/subscribed; periodically a replayed twin and '
         'rebuild() must answer unambiguous probes identically.  Non-trivial: history overwrites an entry or removes one '
         'while a sibling under the same required prefix stays; distinct = distinct op-kind sequences.',
    assumptions=_REG_ASSUME,
)


def _flav_jobs(tier, quick, thorough):
    return cfg_jobs(tier, quick, thorough, [('adapter', {'ZMON_FLAVOUR': 'adapter'}), ('verifying', {'ZMON_FLAVOUR': 'verifying'})])


PLANS['C05'] = dict(
    engine='registry', level='exploration', jobs=lambda tier: _flav_jobs(tier, (8, 400), (8, 3000)),
    minimums=lambda t: dict([('probes', 8000), ('answers_changed_by_mutation', 300), ('cache_hits_confirmed', 4000),
                             ('mutations_overlapping_a_lookup', 300), ('mutations_in_a_burst', 500), ('rebuilds_between_lookups', 100)] +
                            [('changed[%s]' % k, 5) for k in ('register', 'unregister', 'subscribe', 'unsubscribe',
                                                              'registry_bases', 'spec_bases', 'class_declaration', 'object_declaration')]),
    rule='Histories interleaving all nine lookup entry points with all eight mutation kinds (register/unregister/subscribe/'
         'unsubscribe on any registry of the chain, registry __bases__, required-interface __bases__, class declarations, '
         'object declarations; also rebuild(), bursts of several mutations, a change in a newly acquired ancestor right after a re-basing); '
         'after every burst every remembered key and fresh keys are asked of the warm registry and '
         'of a cold registry built by replaying the full mutation log; answers must be identical (values by identity, sequences '
         'in order).  Non-trivial: a mutation changed the cold answer of a key that had been looked up before; distinct = '
         'distinct mutation-kind sequences.  pair[entry,kind] counters give the crossing matrix.',
    assumptions=_REG_ASSUME + ['re-basing is confined to the required-interface family (the source documents that provided __iro__ changes are not tracked)'],
)
PLANS['C06'] = dict(
    engine='registry', level='exploration', jobs=lambda tier: _flav_jobs(tier, (8, 600), (8, 5000)),
    minimums=lambda t: {'ro_invariant_checks': 3000, 'behaviour_probes': 8000, 'rebasings': 300,
                        'rebasings_changing_a_descendant_chain': 60, 'probes_answered_by_an_ancestor': 500,
                        'components_probes': 500, 'components_rebasings': 100, 'registrations_overlapping_a_lookup': 300,
                        'rebasings_into_inconsistent_base_lists': 200, 'declaration_changes_between_probes': 200,
                        'steps_without_probes': 500},
    rule='Registry DAGs (1-5 members, chains and diamonds, one flavour per world; a fifth of the worlds may re-base into base lists without a '
         'C3 order, where a freshly built registry graph is the reference) with distinguishing registrations and '
         'subscriptions in every member; random __bases__ reassignments of any member and registrations in any member; after '
         'every step, from EVERY member: registry.ro must equal the C3 order of the current __bases__ graph, and lookup / '
         'lookupAll names / subscriptions must equal the C04/C07 reference model evaluated over that C3 order; the same for '
         'Components.__bases__ with utilities.  Non-trivial: a re-basing changed the chain of a strict descendant; '
         'distinct = distinct (flavour, op sequence, final base lists).',
    assumptions=_REG_ASSUME + ['registry base lists are kept C3-consistent (a mirrored Python class graph refuses the others)'],
)


def _c12_jobs(tier):
    seeds = [0, 1, 2] if tier == 'quick' else [0, 1, 2, 12345, 987654321, 'random']
    shards, cases = (4, 60) if tier == 'quick' else (4, 400)
    out = []
    for m in ('py', 'c'):
        for hs in seeds:
            out.append(dict(mode=m, shards=shards, cases=cases, cfgname='hash%s' % hs, hashseed=hs,
                            mode_independent_rng=True))
    return out


def _c12_cross(results, counters):
    """sorted() renderings of the same world must be byte-identical across
    implementations and hash seeds."""
    by_case = {}
    for r in results:
        for k, d in (r.get('extra', {}).get('digests', {}) or {}).items():
            by_case.setdefault(k, []).append((r['job'], d))
    out = []
    n = 0
    for k, lst in sorted(by_case.items()):
        n += 1
        if len({d for _, d in lst}) > 1:
            j = lst[0][0]
            out.append((j, {'kind': 'sorted-differs-across-processes', 'mechanism': None, 'case': int(k.split('/')[1]),
                            'detail': {'case': k, 'digests': [(jj['mode'], jj.get('cfgname'), d) for jj, d in lst]}}))
    counters['cross_process_collections_compared'] = n
    counters['processes_per_collection'] = max([len(v) for v in by_case.values()] or [0])
    return out[:5]


PLANS['C12'] = dict(
    engine='order', level='exploration', jobs=_c12_jobs, cross_check=_c12_cross,
    minimums=lambda t: {'pairs[II]': 3000, 'pairs[IS]': 500, 'pairs[SS]': 200, 'equal_key_distinct_pairs': 100,
                        'triples': 3000, 'foreign_pairs': 500, 'cross_process_collections_compared': 40,
                        'processes_per_collection': 4},
    rule='Pools of interfaces over a string pool (empty, equal, prefix-related, case variants, non-ASCII, combining), equal-keyed '
         'twins, class specifications (same qualified names, key colliding with an interface), None and foreign objects; all ordered '
         'pairs x six operators against tuple comparison of (__name__, __module__), reflection, hash consistency, sampled triples '
         '(transitivity, trichotomy), sorted() == stable sort by key; the rendered sorted result of the same seeded world is compared '
         'across py/c and PYTHONHASHSEED values run in separate processes.  Non-trivial pair: equal names or equal modules or mixed '
         'kinds; distinct = distinct (kinds, name-equal, module-equal, key order) classes.',
    assumptions=['equality of a class specification with an equal-keyed interface is not fixed by the statement and not checked'],
)


PLANS['C13'] = dict(
    engine='pickling', level='exploration', jobs=lambda tier: both(tier, (8, 50), (16, 400)),
    minimums=lambda t: {'evaluations': 3000, 'cross_process_loads': 1000, 'roundtrips[class-spec:only]': 20,
                        'roundtrips[class-spec:only_after]': 20, 'roundtrips[class-spec:narrow_then_extend]': 20,
                        'roundtrips[class-provides:provider]': 20, 'roundtrips[instance-provides:nolonger]': 10,
                        'roundtrips[class-spec:legacy_attr]': 10, 'roundtrips[builtin-spec:only]': 10,
                        'roundtrips[class-provides-history:also]': 20, 'roundtrips[class-provides-history:nolonger]': 20,
                        'roundtrips[class-provides-history:provider+also_twice]': 5,
                        'classes_narrowed_after_instance_declarations': 20},
    rule='Generated module files (interfaces with sentinel attribute names/docstrings; classes in every declaration shape: '
         'plain, decorated, implementer_only, classImplementsOnly after the fact, classImplementsFirst, narrowed-then-extended, '
         'provider, old-style __implemented__ attribute; built-in / extension types declared with classImplementsOnly) imported under unique names; every interface, class specification, class provides-declaration, instance '
         'provides-declaration (direct/also/after noLongerProvides; class-level ones changed after the fact; instance ones after their class '
         'was narrowed) and carrier instance is round-tripped through pickle protocols '
         '0-5 in-process (identity / same interfaces, equality and hash where identity is obtained, opcodes and sentinels inspected) '
         'and the bytes are unpickled again in a second process that imports the same module.  Every case is non-trivial; distinct = '
         'distinct multisets of class declaration shapes.',
    assumptions=['a non-identical provides-declaration is compared by the interfaces it provides (declarations have identity equality by design)'],
)


def _c14_jobs(tier):
    shards, cases = (8, 2) if tier == 'quick' else (8, 8)
    return [dict(mode=m, shards=shards, cases=cases, nshards=shards) for m in ('py', 'c')]


PLANS['C14'] = dict(
    engine='adapt', level='exploration', jobs=_c14_jobs, exhaustive=True,
    minimums=lambda t: {'call_cases': 30000 if t == 'quick' else 120000, 'registry_hook_cases': 200, 'class_object_cases': 200, 'reentrant_hook_cases': 200, 'registry_hook_changes_above': 50,
                        'interface_classes_collected_between_cases': 100},
    rule='Complete enumeration of the case product: __conform__ in {absent, returns None, returns value (plain method, staticmethod, function / functools.partial / callable object in the instance dict), body raises '
         'ValueError/TypeError/AttributeError/KeyError (also TypeError/AttributeError from a staticmethod, a function or a callable object in the '
         'instance dict), attribute access raises AttributeError / RuntimeError} x provided in '
         '{no, via class, directly, via class / directly through an interface extending the one asked for} x every hook list of length <= 2 (quick) / <= 3 (thorough) over {returns None, returns value, '
         'raises} x alternate in {absent, given, None} x custom __adapt__ in {none} + {own, inherited, inherited via a class that '
         'adds another interfacemethod, inherited two such levels deep} x {returns None, value, raises, delegates to the default}; '
         'for each: I(obj[, alt]) and I.__adapt__(obj); outcome (result identity, exception identity, TypeError args) and exact '
         'call log vs the reference; plus registry.adapter_hook vs queryAdapter, class objects as adaptees (unbound and classmethod __conform__) '
         'and hooks that adapt something else before answering.  exhaustive refers to this finite product.  '
         'Non-trivial: at least one callee is expected to run; distinct = distinct (expected call log, outcome kind).',
    assumptions=['adapting a class object whose unbound __conform__ cannot be called counts as "no __conform__" (documented in the source); '
                 'checked in a separate small product together with classmethod __conform__s'],
)


def _grid_jobs(tier, modes=('py',)):
    shards, cases = (4, 3) if tier == 'quick' else (8, 4)
    return [dict(mode=m, shards=shards, cases=cases, nshards=shards) for m in modes]


PLANS['C17'] = dict(
    engine='signature', level='exploration', jobs=lambda tier: _grid_jobs(tier, ('py', 'c')),
    exhaustive=True,
    minimums=lambda t: {'signature_pairs': 6900, 'pairs_accepted': 1000, 'pairs_rejected': 1000, 'multi_error_cases': 800,
                        'cases_with_2plus_errors': 150, 'special_cases': 5, 'multi_overridden_method': 50, 'multi_base_depth[3]': 30,
                        'multi_reverified_after_ancestor_rebase': 100, 'multi_keys_differing_from_description_names': 100,
                        'multi_reverified_after_twin_swap': 50, 'implementations_with_keyword_only_defaults': 500},
    rule='Complete grid of (interface method signature) x (implementation signature), each over required 0-3 x defaulted 0-2 x *args '
         'x **kwargs (48 x 48 = 2304 pairs) in three forms (plain function on the instance, bound method, verifyClass with self); '
         'the admitted call shapes of the interface signature are built explicitly and tried with inspect.signature(impl).bind; '
         'plus random multi-error cases (missing methods/attributes incl. names defined 1-3 levels up or at the top of a diamond, '
         'inherited methods re-declared with another signature by the verified interface, undeclared, tentative, '
         'class vs object) whose reported failures must be exactly the expected ones, and non-introspectable/non-callable attributes.  '
         'exhaustive refers to the signature grid.  Every pair is non-trivial; distinct = distinct (form, interface sig, impl sig).',
    assumptions=['keyword-only and positional-only parameters are outside this property\'s quantifier (C18)',
                 'verifyClass does not report missing plain attributes (documented)'],
)
PLANS['C18'] = dict(
    engine='signature', level='exploration', jobs=lambda tier: _grid_jobs(tier, ('py', 'c')),
    exhaustive=True,
    minimums=lambda t: {'descriptions[fromFunction]': 756, 'descriptions[abc]': 756, 'descriptions[fromMethod-bound]': 756,
                        'descriptions[interface-body]': 756, 'shipped_abc_methods': 20,
                        'grid_points_with_varied_default_values': 400},
    rule='Complete grid of generated def statements: positional-only 0-2 x required 0-2 x defaulted 0-2 x *args x keyword-only 0-2 '
         '(every with/without-default mask) x **kw (756 functions, varied */** names, default values of several types: None, strings, '
         'tuples, empty containers) through six routes (fromFunction, interface '
         'class body, fromMethod of a bound method and of the function, fromFunction(imlevel=1), ABCInterfaceClass) plus the methods '
         'of the shipped zope.interface.common.collections ABC interfaces; getSignatureInfo()/getSignatureString()/tagged values '
         'against inspect.signature.  Non-trivial: any of posonly/defaults/*args/kwonly/**kw present; distinct = distinct grid points.',
    assumptions=['inspect.signature is the reference'],
)


PLANS['C16'] = dict(
    engine='components', level='exploration', jobs=lambda tier: both(tier, (16, 400), (16, 4000)),
    minimums=lambda t: {'steps': 4000, 'event_sequences_checked': 4000, 'replaced_utilities': 100,
                        'noop_utility_registrations': 50, 'same_component_multi_name': 100, 'partial_removals': 50,
                        'histories_with_unhashable_components': 20},
    rule='Random histories over the eight register*/unregister* methods of Components (+ re-initialisation) with identical, '
         'equal-but-distinct, hashable and unhashable components, the same component under several names / provided interfaces, '
         'replacements, related provided interfaces, falsy components, the factory= / inferred provided, required and name / event=False call '
         'forms, classes as required specifications, a static base Components in half of the histories (kept at re-initialisation); '
         'after every call: return value, the exact event sequence passed to '
         'zope.interface.registry.notify (and what the events describe), the four registered*() listings against a ledger, '
         'rebuildUtilityRegistryFromLocalCache() must report nothing to repair, and every query method against fresh '
         'AdapterRegistry objects populated with exactly the ledger.  Non-trivial: a component registered under >= 2 names is '
         'partially removed; distinct = distinct (hash mode, method sequence).',
    assumptions=['hashability is a property of the equality class of a component',
                 'events: where the documented per-call behaviour and the strictest per-registration reading differ both are accepted (DESIGN 3.16)'],
)


def _c11_jobs(tier):
    out = []
    q = tier == 'quick'
    for m in ('py', 'c'):
        out.append(dict(mode=m, shards=4 if q else 8, cases=2, nshards=4 if q else 8, part='script', cfgname='script'))
        out.append(dict(mode=m, shards=1, cases=1, part='leak', cfgname='leak'))
        out.append(dict(mode=m, shards=1, cases=2, part='threads', cfgname='threads-mutator', thread_mode='mutator',
                        seconds=3 if q else 30, lookers=3))
        out.append(dict(mode=m, shards=1, cases=2, part='threads', cfgname='threads-lookonly', thread_mode='lookonly',
                        seconds=2 if q else 15, lookers=4))
        out.append(dict(mode=m, shards=1 if q else 4, cases=2 if q else 6, part='subrace', cfgname='subscription-race',
                        lookers=4, specs=120 if q else 300))
        out.append(dict(mode=m, shards=2 if q else 4, cases=1 if q else 2, part='mutrace', cfgname='mutation-window-race',
                        lookers=3, mutations=200 if q else 600, timeout_s=900 if q else 3000))
    # sanitizer legs (c only): the same scripted product without the monitor's retention and with the
    # dict-free-list flood, so that a cache dictionary released during a callback really reaches free()
    vg_shards = 6 if q else 16
    out.append(dict(mode='c', shards=vg_shards, cases=1, nshards=vg_shards, part='script', cfgname='valgrind',
                    runner='valgrind', build='dbg', audit=False, timeout_s=900 if q else 3600,
                    only_actions=['register_flood', 'changed_flood', 'reenter_then_changed'] if q else None,
                    only_points=['uncached_exit', 'spec_weakref', 'provided_hash', 'name_hash', 'required_hash',
                                 'generation_attr', 'value_del', 'factory', 'super_self'] if q else None))
    if not q:
        out.append(dict(mode='c', shards=8, cases=1, nshards=8, part='script', cfgname='asan', runner='asan', build='asan',
                        audit=False, timeout_s=3600))
        out.append(dict(mode='c', shards=1, cases=3, part='threads', cfgname='asan-threads', runner='asan', build='asan',
                        thread_mode='mutator', seconds=40, lookers=3, flood=True, timeout_s=3600))
        out.append(dict(mode='c', shards=1, cases=2, part='threads', cfgname='threads-flood', thread_mode='mutator',
                        seconds=30, lookers=4, flood=True, switchinterval=1e-6))
        out.append(dict(mode='py', shards=1, cases=2, part='threads', cfgname='threads-fast-switch', thread_mode='mutator',
                        seconds=30, lookers=4, switchinterval=1e-6))
    return out


PLANS['C11'] = dict(
    engine='reent', level='fault_enumeration', jobs=_c11_jobs,
    minimums=lambda t: dict({'cells_reached': 3000, 'audited_dicts': 1000, 'warm[hit]': 1000, 'leak_scenarios': 60, 'thread_lookups': 20000,
                             'thread_mutations': 200, 'subrace_probes': 1000, 'mutrace_mutations': 600, 'mutrace_lookups': 5000,
                             'parked_rebase_schedules': 4, 'scheduled_rebuild_schedules': 4, 'mutrace_rebuilds': 20,
                             'super_self_factory_checks': 100, 'action[reenter_then_base]': 100},
                            # every callback point of the fault model must have been reached (a point whose hook is lost in a
                            # refactoring would otherwise go unnoticed)
                            **{'reached[%s]' % p_: 50 for p_ in (
                                'lazy_required', 'provided_hash', 'provided_eq', 'name_hash', 'name_bool', 'required_hash', 'required_eq',
                                'uncached_entry', 'uncached_exit', 'spec_weakref', 'spec_subscribe', 'providedBy_descr', 'provides_descr',
                                'conform', 'factory', 'value_del', 'generation_attr', 'generation_attr_2nd', 'ro_attr', 'super_self')}),
    rule='Fault model = callback points (every place where foreign Python code can run while a lookup is on the stack: lazy '
         'required, provided/name/required __hash__/__eq__/__bool__, overridden _uncached_* at entry and exit, spec weakref/'
         'subscribe, __providedBy__/__provides__/__conform__ descriptors, factories, __del__ of a cached value, _generation on '
         'the verifying path) x actions (register, unregister, subscribe, unsubscribe, changed, re-base, re-enter same/other '
         'lookup, raise, gc, with/without dict-free-list flood) x ten entry points x two registry flavours, enumerated; per '
         'reached cell: answer oracle (interrupted answer in {cold-before, cold-after}, next call and cold replay give after, '
         'raised exception propagates) and cache-ownership audit (a cache dict with no owner at release time must not be written '
         'later); leak meters; thread stress with generation-stamped values and a quiescence oracle; mutation-window race (fresh provided '
         'interfaces registered and removed at every level of a chain and re-basing to another parent, statement-level preemption inside the '
         'mutation functions, probes by the mutator right after each mutation, permanent entries that every concurrent answer must contain); '
         'subscription race; a lookup thread scheduled in the middle of rebuild() and rebuild() among the free-running mutations '
         '(answers after it has returned); super subclasses with a computed __self__ (the factory argument must be alive); a computed '
         'registry resolution order.  Every one of the 20 callback points has its own floor.  Every reached cell is '
         'non-trivial; distinct = distinct (flavour, point, action, entry) cells + leak scenarios + thread configurations.',
    assumptions=['GIL: preemption happens only where Python code runs', 'valgrind/ASan legs decide reads and freed-memory writes (thorough)'],
)


def _c10_jobs(tier):
    q = tier == 'quick'
    shards, cases, steps = (16, 16, 800) if q else (16, 40, 2000)
    out = [dict(mode=m, shards=shards, cases=cases, steps=steps, mode_independent_rng=True, cfgname='diff') for m in ('py', 'c')]
    if not q:
        out.append(dict(mode='c', shards=8, cases=2, steps=600, mode_independent_rng=True, cfgname='asan', runner='asan', build='asan',
                        keep_traces=False, timeout_s=3600))
        out.append(dict(mode='c', shards=12, cases=2, steps=250, mode_independent_rng=True, cfgname='valgrind', runner='valgrind',
                        build='dbg', keep_traces=False, timeout_s=3600))
    return out


def _c10_cross(results, counters):
    progs = {}
    for r in results:
        j = r['job']
        if j.get('cfgname') != 'diff':
            continue
        for tag, d in (r.get('extra', {}).get('programs', {}) or {}).items():
            progs.setdefault(tag, {})[j['mode']] = (j, d)
    out, compared, steps = [], 0, 0
    for tag, d in sorted(progs.items()):
        if 'py' not in d or 'c' not in d:
            continue
        compared += 1
        (jp, a), (jc, b) = d['py'], d['c']
        n = min(len(a['chain']), len(b['chain']))
        steps += n
        k = next((i for i in range(n) if a['chain'][i] != b['chain'][i]), None)
        if k is None and len(a['chain']) != len(b['chain']):
            k = n
        if k is not None:
            ta = a['trace'][k] if a.get('trace') and k < len(a['trace']) else '?'
            tb = b['trace'][k] if b.get('trace') and k < len(b['trace']) else '?'
            out.append((jc, {'kind': 'py-c-divergence', 'mechanism': classify_divergence(ta, tb),
                             'case': int(tag.split('_')[1]),
                             'detail': {'program': tag, 'step': k, 'python': ta[:400], 'c': tb[:400],
                                        'previous': (a['trace'][max(0, k - 3):k] if a.get('trace') else [])}}))
        # the last steps of every program exercise the recorded py/C divergences, each compared on its own
        fa, fb = a.get('final') or [], b.get('final') or []
        for i in range(max(len(fa), len(fb))):
            ta = fa[i] if i < len(fa) else '?'
            tb = fb[i] if i < len(fb) else '?'
            counters['final_steps_compared'] = counters.get('final_steps_compared', 0) + 1
            if ta != tb:
                out.append((jc, {'kind': 'py-c-divergence', 'mechanism': classify_divergence(ta, tb),
                                 'case': int(tag.split('_')[1]),
                                 'detail': {'program': tag, 'step': 'final+%d' % i, 'python': ta[:400], 'c': tb[:400]}}))
    counters['programs_compared'] = compared
    counters['steps_compared'] = steps
    return out


def classify_divergence(ta, tb):
    """Known py/C divergences by mechanism (see known_findings.json)."""
    if '[custom providedBy]' in ta and ta.endswith('-> True') and tb.endswith('-> False'):
        return 'custom_providedBy_ignored_by_c'
    if '[keyword call]' in ta and 'EXC:' not in ta and tb.endswith('-> EXC:TypeError'):
        return 'c_functions_take_no_keywords'
    return None


PLANS['C10'] = dict(
    engine='diff', level='exploration', jobs=_c10_jobs, cross_check=_c10_cross,
    minimums=lambda t: {'programs_compared': 10, 'steps_compared': 3000, 'steps_with_exception': 200, 'steps_nondefault': 1000},
    rule='Seeded API programs (declarations, specification queries and rebasing, comparison and hashing, adaptation calls with '
         'hook-list edits and custom __adapt__, registry mutation and every lookup entry point, plus an error-path grammar: '
         'non-string names, unhashable / raising-hash provided, lazy and non-sequence required, objects with odd __provides__/'
         '__providedBy__/__class__/__conform__, foreign comparison operands, None-named interfaces, keyword call forms, super proxies, repeated '
         '(cached) lookups through sibling entry points with other defaults, lazy required sequences that change the registry, falsy adapter '
         'results, Components and verify operations, declaration algebra, descriptors, the lifecycle of a temporary interface) are executed once under '
         'PURE_PYTHON=1 and once with the C accelerator in separate processes; the canonical traces (results, exception types) are '
         'compared step by step; the c side also runs under ASan/UBSan and valgrind in the thorough tier.  evaluations = steps '
         'executed; non-trivial: program with at least one step ending in an exception; distinct = distinct programs.',
    assumptions=['exception messages and reprs are not compared, only types', 'same PYTHONHASHSEED in both processes'],
)


# Floors for the monitors added in the audit session (measured quick-tier values are 5-100 times higher; a monitor that
# is silently no longer reached makes the run inconclusive instead of green)
EXTRA_FLOORS = {
    'C01': {'checks_asking_objects_before_classes': 5000, 'class_level_alsoProvides': 200, 'classes_built_on_a_builtin_type': 500,
            'declarations_during_which_a_new_dependent_appeared': 100},
    'C02': {'interfaces_with_a_hash_of_their_own': 500, 'assignments_overtaken_by_a_nested_assignment': 50,
            'assignments_during_which_a_new_dependent_appeared': 100, 'assignments_with_a_base_listed_twice': 20},
    'C05': {'lookups_with_a_tuple_subclass_of_coarser_equality': 10000, 'probes_with_required_in_swapped_order': 5000,
            'watched_specifications_that_died': 1000},
    'C06': {'first_call_after_a_change[lookupAll]': 3000, 'first_call_after_a_change[subscriptions]': 3000,
            'rebasings_with_a_failing_generation_read[raised]': 300, 'rebuilt_base_probes': 1000,
            'components_bases_given_as_one_shot_iterable': 500},
    'C07': {'one_object_subscribed_under_several_keys': 1000, 'results_with_one_object_under_several_keys': 100, 'rebuilt_base_probes': 1000},
    'C08': {'adapter_call_forms[1]': 10000, 'adapter_call_forms[2]': 10000, 'adapter_call_forms[3]': 10000, 'rebuilt_base_probes': 1000},
    'C09': {'identical_reregistrations': 1000, 'unregistrations_with_a_cleaning_finalizer': 1000,
            'unregistrations_of_an_absent_entry_next_to_an_existing_one': 500, 'rebuilt_base_probes': 1000,
            'required_given_as_a_one_shot_iterable': 3000},
    'C10': {'final_steps_compared': 60},
    'C12': {'interfaces_without_module': 300, 'comparisons_with_a_meddling_name': 3000, 'comparisons_after_a_rename': 1000,
            'interfaces_with_names_of_a_str_subclass': 500, 'foreign_pairs_with_name_and_module': 10000,
            'foreign_pairs_with_their_own_comparison': 500},
    'C13': {'roundtrips[class-provides-under-a-declaring-metaclass]': 500, 'declarations_on_a_named_class_after_pickling': 50,
            'roundtrips[after-interrupted-declaration]': 500, 'roundtrips[shipped-interface]': 100, 'roundtrips[empty]': 500},
    'C14': {'value_style[1]': 2000, 'value_style[2]': 2000, 'value_style[3]': 2000, 'value_style[4]': 2000, 'registry_hook_rebasings': 100,
            'registry_hook_kept_across_rebuild': 4, 'exception_kind_from_hooks_and_adapt[AttributeError]': 2000,
            'exception_kind_from_hooks_and_adapt[TypeError]': 2000},
    'C15': {'definitions_added_after_the_first_query': 500},
    'C16': {'volatile_state_dropped[copy]': 300, 'volatile_state_dropped[dropcache]': 500, 'refused_calls': 1000,
            'damaged_utility_registries_reported_and_repaired[subscription]': 200,
            'damaged_utility_registries_reported_and_repaired[registration]': 200, 'repair_checks_with_a_comparison_fault[raised]': 500,
            'subscription_adapter_forms[inferred]': 500, 'handler_forms[inferred]': 300},
    'C17': {'multi_rebase_interrupted_by_a_raising_dependent': 50, 'multi_reverified_after_reinitialised_ancestor': 20, 'special_cases': 50},
    'C18': dict({'descriptions_rendered_by_two_threads_at_once': 1, 'lambdas_described': 7},
                **{'grid_points_by_kind_of_function[%s]' % k: 50 for k in ('plain', 'async', 'gen', 'asyncgen', 'closure')}),
    'C19': {'super_queries_failed_under_a_strict_order': 200, 'super_resolution_orders_compared': 50000, 'super_queries_with_nothing_left_of_the_mro': 20000,
            'super_queries_right_after_an_interrupted_declaration': 30},
    'C20': {'class_spec_lists_after_further_declarations[classImplements]': 1000,
            'class_spec_lists_after_further_declarations[classImplementsFirst]': 500,
            'class_spec_lists_after_further_declarations[classImplementsOnly]': 500, 'declarations_from_proxied_interfaces': 3000,
            'declarations_built_from_what_an_object_provides': 1000, 'results_of_operations_on_a_live_class_specification': 1000},
}
for _p, _f in EXTRA_FLOORS.items():
    _old = PLANS[_p].get('minimums', lambda t: {})
    PLANS[_p]['minimums'] = (lambda old, extra: (lambda t: dict(old(t), **extra)))(_old, _f)
