"""Per-property plans: which engine, which jobs per tier, floors, rule text."""

PLANS = {}


def both(tier, quick, thorough, **kw):
    """Jobs in py and c mode: (shards, cases) per tier."""
    shards, cases = quick if tier == 'quick' else thorough
    return [dict(mode=m, shards=shards, cases=cases, **kw) for m in ('py', 'c')]


def _decl_jobs(tier):
    return both(tier, (4, 150), (8, 1500))


PLANS['C01'] = dict(
    engine='decl', level='exploration', jobs=_decl_jobs,
    minimums=lambda t: {'evaluations': 20000, 'histories_with_narrowing': 20, 'nlp': 20},
    rule='Seeded random histories over generated interface DAGs and class DAGs (multiple inheritance): '
         'class creation with/without decorators, instance creation, implementer, implementer_only, '
         'classImplements, classImplementsOnly, classImplementsFirst, directlyProvides, alsoProvides, '
         'noLongerProvides, provider, gc.  After every step every live class and instance is queried '
         '(providedBy, implementedBy, I.providedBy, I.implementedBy, directlyProvidedBy) and compared with '
         'the must/may reference model.  evaluations = oracle comparisons.  A history is non-trivial when it '
         'narrows a class with an *only* form or declares on a class that already has subclasses or '
         'instances; distinct = distinct op-kind sequences among those.',
    assumptions=['reference model of DESIGN 3.1 (must/may bounds; redundancy decided from validated answers)',
                 'interfaces have process-unique (name, module)'],
)
PLANS['C19'] = dict(
    engine='decl', level='exploration', jobs=_decl_jobs,
    minimums=lambda t: {'super_queries': 5000, 'super_adaptations_hit': 200,
                        'histories_changed_after_first_super_query': 20},
    rule='Same histories as C01; after a seeded subset of steps every (C, ob) pair along every MRO is queried: '
         'providedBy(super(C, ob)), implementedBy(super(C, ob)), I.providedBy(proxy) and '
         'registry.queryAdapter(proxy, ITarget) with recording factories; expected = must/may bounds of the '
         'classes strictly after C in the MRO; the factory must be the first registered one along the proxy '
         'specification order and must receive the underlying object.  Non-trivial: a class declaration '
         'changed after the first proxy query (warm per-class cache) and some MRO has >= 3 classes.',
    assumptions=['C01 reference model', 'adapter selection order read from providedBy(proxy).__sro__ after it was validated against the bounds'],
)


PLANS['C20'] = dict(
    engine='algebra', level='exploration', jobs=lambda tier: both(tier, (4, 120), (8, 1500)),
    minimums=lambda t: {'pairs': 5000, 'pairs_A_extends_B': 300, 'pairs_B_extends_A': 300, 'noLongerProvides': 100},
    rule='Declarations built from arbitrarily nested argument sequences (tuples, lists, Declarations, class '
         'specifications, duplicates) over generated interface DAGs; for every declaration: iteration, membership, '
         'flattened(); for every ordered pair (plus single-interface operands): A-B, A+B and operand immutability, '
         'against list algebra over DFS reachability.  evaluations = oracle comparisons.  Non-trivial: the world has a '
         'pair of operands related by extension; distinct = distinct (length, nesting depth, ancestor-count profile).',
    assumptions=['A+B: a new element of B that extends only an earlier new element of B may sit on either side (DESIGN 3.20)'],
)
