"""Import-time redirection.  Must be imported before ``zope.interface``.

* ``zope.__path__`` -> ``$VERIF_REPO/src/zope`` (+ site-packages ``zope`` for
  ``zope.event``), so the harness runs the Python sources of the tree named by
  VERIF_REPO (default /repo) and nothing else.
* ``zope.interface._zope_interface_coptimizations`` is served **only** from
  ``$ZI_SO`` (an extension built by the check from the working tree's .c file);
  without ZI_SO the import fails, so the stale prebuilt .so next to the sources
  can never be picked up.
"""
import importlib.abc
import importlib.machinery
import importlib.util
import os
import sys
import types

REPO = os.environ.get('VERIF_REPO', '/repo')
SO = os.environ.get('ZI_SO') or None
CNAME = 'zope.interface._zope_interface_coptimizations'


class _Finder(importlib.abc.MetaPathFinder):
    def find_spec(self, name, path, target=None):
        if name != CNAME:
            return None
        if not SO:
            raise ImportError('zmon: C accelerator disabled (no ZI_SO)')
        loader = importlib.machinery.ExtensionFileLoader(name, SO)
        return importlib.util.spec_from_file_location(name, SO, loader=loader)


def install():
    if any(isinstance(f, _Finder) for f in sys.meta_path):
        return
    if 'zope.interface' in sys.modules:
        raise RuntimeError('zmon._boot imported after zope.interface')
    sys.meta_path.insert(0, _Finder())
    z = sys.modules.get('zope')
    if z is None:
        z = types.ModuleType('zope')
        sys.modules['zope'] = z
    paths = [os.path.join(REPO, 'src', 'zope')]
    for p in sys.path:
        cand = os.path.join(p, 'zope')
        if 'site-packages' in p and os.path.isdir(cand):
            paths.append(cand)
    z.__path__ = paths


install()


def verify_mode():
    """Return 'c' or 'py' after checking that the requested implementation is
    really the one loaded; raise RuntimeError otherwise (-> inconclusive)."""
    import zope.interface
    from zope.interface import interface as zi
    want_c = os.environ.get('PURE_PYTHON') == '0'
    src = os.path.realpath(os.path.dirname(zope.interface.__file__))
    exp = os.path.realpath(os.path.join(REPO, 'src', 'zope', 'interface'))
    if src != exp:
        raise RuntimeError('zope.interface imported from %s, wanted %s' % (src, exp))
    cmod = sys.modules.get(CNAME)
    if want_c:
        if cmod is None or os.path.realpath(cmod.__file__) != os.path.realpath(SO or ''):
            raise RuntimeError('C accelerator not loaded from ZI_SO')
        if zi.SpecificationBase is not cmod.SpecificationBase:
            raise RuntimeError('C SpecificationBase not in use')
        return 'c'
    if cmod is not None and zi.SpecificationBase is getattr(cmod, 'SpecificationBase', None):
        raise RuntimeError('C accelerator in use in py mode')
    return 'py'
