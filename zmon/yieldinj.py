"""Yield injection with sys.monitoring (3.12+): force GIL hand-offs at statement
boundaries of chosen Python functions, so that interleavings the default switch
interval would rarely pick are explored.  Cost is confined to those functions."""
import random
import sys
import threading
import time

TOOL = 3   # sys.monitoring tool id (0-5); 3 and 4 are free for custom tools
_state = {'installed': False, 'codes': [], 'fired': set(), 'prob': 0.0, 'rng': None, 'count': 0}
_lock = threading.Lock()


def available():
    return hasattr(sys, 'monitoring')


def _on_line(code, line):
    st = _state
    if st['rng'].random() < st['prob']:
        st['fired'].add((code.co_name, line))
        st['count'] += 1
        time.sleep(0)            # releases the GIL: another runnable thread gets it


def install(functions, prob=0.3, seed=0):
    """functions: Python functions / property objects whose lines become preemption points."""
    if not available():
        return False
    mon = sys.monitoring
    codes = []
    for f in functions:
        f = getattr(f, 'fget', f)
        f = getattr(f, '__func__', f)
        c = getattr(f, '__code__', None)
        if c is not None:
            codes.append(c)
    _state.update(codes=codes, fired=set(), prob=prob, rng=random.Random(seed), count=0)
    if not _state['installed']:
        mon.use_tool_id(TOOL, 'zmon-yield')
        mon.register_callback(TOOL, mon.events.LINE, _on_line)
        _state['installed'] = True
    for c in codes:
        mon.set_local_events(TOOL, c, mon.events.LINE)
    return True


def uninstall():
    if not _state['installed']:
        return
    mon = sys.monitoring
    for c in _state['codes']:
        mon.set_local_events(TOOL, c, 0)
    mon.register_callback(TOOL, mon.events.LINE, None)
    mon.free_tool_id(TOOL)
    _state['installed'] = False


def fired():
    return set(_state['fired']), _state['count']
