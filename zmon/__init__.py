"""zmon -- runtime monitors for the zope.interface properties (see ../DESIGN.md)."""
