"""Worker process: runs one shard of one engine job and writes a JSON result.

usage: python -m zmon.worker JOBFILE OUTFILE
"""
import faulthandler
import importlib
import json
import os
import random
import sys
import time
import traceback

faulthandler.enable()


def main():
    jobfile, outfile = sys.argv[1], sys.argv[2]
    with open(jobfile) as f:
        job = json.load(f)
    from zmon import _boot
    out = {'job': job, 'status': 'ok'}
    try:
        out['mode_loaded'] = _boot.verify_mode()
    except Exception as e:  # wrong implementation loaded -> inconclusive
        out['status'] = 'inconclusive'
        out['reason'] = 'boot: %s: %s' % (type(e).__name__, e)
        with open(outfile, 'w') as f:
            json.dump(out, f)
        return 0
    from zmon.ctx import Ctx, CaseAbort
    eng = importlib.import_module('zmon.engines.' + job['engine'])
    ctx = Ctx(job['prop'], job['tier'], job['mode'], job.get('cfg', {}), trace=job.get('trace', False))
    cases = job['only_case'] if job.get('only_case') is not None else range(job['cases'])
    if isinstance(cases, int):
        cases = [cases]
    t0 = time.time()
    budget = job.get('budget_s')
    repo_src = os.path.realpath(os.path.join(_boot.REPO, 'src'))
    if hasattr(eng, 'setup'):
        eng.setup(ctx, job)
    for idx in cases:
        if budget and time.time() - t0 > budget:
            ctx.count('cases_skipped_budget', 1)
            continue
        if job.get('mode_independent_rng'):
            # the same world in every implementation / configuration (differential engines)
            rng = random.Random('%s/%s/%s/%s' % (job['prop'], job['seed'], job['shard'], idx))
        else:
            rng = random.Random('%s/%s/%s/%s/%s/%s' % (
                job['prop'], job['seed'], job['mode'], job.get('cfgname', ''), job['shard'], idx))
        ctx.begin_case(idx)
        try:
            eng.run_case(ctx, rng, job)
        except CaseAbort:
            pass
        except Exception as e:
            tb = traceback.extract_tb(e.__traceback__)
            files = [os.path.realpath(f.filename) for f in tb]
            text = ''.join(traceback.format_exception(type(e), e, e.__traceback__))[-3000:]
            # raised by the code under test: some frame of the library lies *below* the last harness frame (the
            # innermost frame itself may be in the standard library, e.g. a weak dictionary the library indexes)
            verif_dir = os.path.dirname(os.path.dirname(os.path.abspath(__file__)))
            last_harness = max([i for i, f in enumerate(files) if f.startswith(verif_dir)] or [-1])
            from_repo = any(f.startswith(repo_src) for f in files[last_harness + 1:])
            # ... or it was raised by one of the harness's own hostile objects (a component whose hash raises
            # TypeError, say) and the library, which copes with that on the unchanged tree, let it escape
            if not from_repo and any(f.startswith(repo_src) for f in files):
                from_repo = True
            if from_repo or getattr(e, '_zmon_from_repo', False):
                # an exception the engine did not anticipate, raised by the code under test
                try:
                    ctx.violation('unexpected-exception', {'type': type(e).__name__, 'tb': text})
                except CaseAbort:
                    pass
            else:
                out['status'] = 'error'
                out['reason'] = text
                break
        if ctx.viol_total >= 40:
            break
    if hasattr(eng, 'teardown'):
        eng.teardown(ctx, job)
    out.update(ctx.result())
    out['wall_s'] = time.time() - t0
    with open(outfile, 'w') as f:
        json.dump(out, f, default=str)
    return 0


if __name__ == '__main__':
    sys.exit(main())
