"""Build the C accelerator from the working tree into a private temp dir."""
import os
import shutil
import subprocess
import sysconfig
import tempfile
import atexit

REPO = os.environ.get('VERIF_REPO', '/repo')
CSRC = os.path.join(REPO, 'src', 'zope', 'interface', '_zope_interface_coptimizations.c')
_tmp = None

FLAGS = {
    'opt': ('gcc', ['-O2', '-g']),
    'dbg': ('gcc', ['-O1', '-g', '-fno-omit-frame-pointer']),
    'asan': ('clang', ['-O1', '-g', '-fno-omit-frame-pointer',
                       '-fsanitize=address,undefined', '-fno-sanitize-recover=all',
                       '-shared-libsan']),
}


def tmpdir():
    global _tmp
    if _tmp is None:
        _tmp = tempfile.mkdtemp(prefix='zmon-build-')
        atexit.register(shutil.rmtree, _tmp, True)
    return _tmp


def build(kind='opt'):
    """Return (path, None) or (None, compiler output)."""
    cc, flags = FLAGS[kind]
    cov = os.environ.get('ZMON_COV_DIR')
    if cov and kind in ('opt', 'dbg'):
        return _build_cov(cov)
    out = os.path.join(tmpdir(), kind)
    os.makedirs(out, exist_ok=True)
    so = os.path.join(out, '_zope_interface_coptimizations' + sysconfig.get_config_var('EXT_SUFFIX'))
    if os.path.exists(so):
        return so, None
    inc = sysconfig.get_paths()['include']
    cmd = [cc, '-shared', '-fPIC', '-fwrapv', '-Wall', '-I', inc] + flags + [CSRC, '-o', so]
    p = subprocess.run(cmd, capture_output=True, text=True, timeout=600)
    if p.returncode != 0 or not os.path.exists(so):
        return None, (p.stdout + p.stderr)[-4000:]
    return so, None


def _build_cov(cov):
    """Measuring build (tools/ccov.py): gcc --coverage, counters accumulate in <cov>/zi.gcda across all workers."""
    os.makedirs(cov, exist_ok=True)
    so = os.path.join(cov, '_zope_interface_coptimizations' + sysconfig.get_config_var('EXT_SUFFIX'))
    if os.path.exists(so):
        return so, None
    inc = sysconfig.get_paths()['include']
    obj = os.path.join(cov, 'zi.o')
    p = subprocess.run(['gcc', '-c', '-fPIC', '-fwrapv', '-O0', '-g', '--coverage', '-I', inc, CSRC, '-o', obj],
                       capture_output=True, text=True, timeout=600)
    if p.returncode == 0:
        p = subprocess.run(['gcc', '-shared', '--coverage', obj, '-o', so], capture_output=True, text=True, timeout=600)
    if p.returncode != 0 or not os.path.exists(so):
        return None, (p.stdout + p.stderr)[-4000:]
    return so, None


def asan_runtime():
    p = subprocess.run(['clang', '-print-file-name=libclang_rt.asan-x86_64.so'],
                       capture_output=True, text=True)
    path = p.stdout.strip()
    return path if os.path.exists(path) else None
