"""Shared oracles and world generators (imported inside workers, after _boot)."""
import itertools
import os

from zope.interface import Interface
from zope.interface.interface import InterfaceClass

_uid = itertools.count()
PID = os.getpid()


def fresh_module():
    """A process-unique module name: equal (name, module) interfaces are ==
    and would collide in weak ``dependents`` dictionaries (DESIGN 2.5)."""
    return 'zmw%d_%d' % (PID, next(_uid))


def mkiface(name, bases=(), attrs=None, module=None):
    return InterfaceClass(name, tuple(bases) or (Interface,), dict(attrs or {}),
                          __module__=module or fresh_module())


# ---------------------------------------------------------------------------
# C3 oracles

def c3(node, bases_of, memo=None):
    """Independent C3 merge.  Returns the linearization (list) or None when
    *node* or one of its ancestors has no C3 linearization."""
    if memo is None:
        memo = {}
    k = id(node)
    if k in memo:
        return memo[k]
    seqs = []
    for b in bases_of(node):
        l = c3(b, bases_of, memo)
        if l is None:
            memo[k] = None
            return None
        seqs.append(list(l))
    seqs.append(list(bases_of(node)))
    res = [node]
    seqs = [s for s in seqs if s]
    while seqs:
        for s in seqs:
            cand = s[0]
            if not any(any(cand is x for x in t[1:]) for t in seqs):
                break
        else:
            memo[k] = None
            return None
        res.append(cand)
        seqs = [[x for x in s if x is not cand] for s in seqs]
        seqs = [s for s in seqs if s]
    memo[k] = res
    return res


def mirror_mro(node, bases_of, root=None, memo=None):
    """CPython's own MRO of a mirrored class graph.  *root* (if given) maps to
    ``object``; nodes with no bases derive from ``object``.  Returns the list
    of nodes (root last if given) or None when ``type()`` refuses."""
    if memo is None:
        memo = {}
    back = memo.setdefault('_back', {})

    def cls_of(n):
        if root is not None and n is root:
            return object
        k = id(n)
        if k in memo:
            return memo[k]
        bs = []
        for b in bases_of(n):
            c = cls_of(b)
            if c is None:
                memo[k] = None
                return None
            if c is not object:
                bs.append(c)
        try:
            c = type('M', tuple(bs) or (object,), {})
        except TypeError:
            c = None
        memo[k] = c
        if c is not None:
            back[c] = n
        return c
    c = cls_of(node)
    if c is None:
        return None
    if c is object:
        return [root]
    out = [back[x] for x in c.__mro__ if x is not object]
    if root is not None:
        out.append(root)
    return out


def reach(node, bases_of):
    """Set (by id) and list of everything reachable from node (node excluded
    unless on a cycle) over bases_of."""
    seen, out, stack = set(), [], list(bases_of(node))
    while stack:
        n = stack.pop()
        if id(n) in seen:
            continue
        seen.add(id(n))
        out.append(n)
        stack.extend(bases_of(n))
    return seen, out


def spec_bases(s):
    return () if s is Interface else tuple(s.__bases__)


# ---------------------------------------------------------------------------
# generators

def gen_iface_dag(rng, n, prefix='I', maxb=3, module=None, consistent_only=False,
                  attrs_for=None):
    """*n* interfaces, each with 0..maxb ordered bases among earlier ones.
    Creation may raise in strict mode; such nodes are skipped."""
    module = module or fresh_module()
    out = []
    for i in range(n):
        k = rng.choice([0, 1, 1, 2, 2, 3][:maxb + 3]) if out else 0
        k = min(k, len(out), maxb)
        bases = tuple(rng.sample(out, k))
        if consistent_only and bases:
            if c3_of_bases(bases) is None:
                bases = bases[:1]
        attrs = attrs_for(i, rng) if attrs_for else None
        try:
            out.append(mkiface('%s%d' % (prefix, i), bases, attrs, module))
        except Exception as e:  # strict mode
            if type(e).__name__ != 'InconsistentResolutionOrderError':
                raise
    return out


class _Tmp:
    pass


def c3_of_bases(bases, bases_of=spec_bases):
    """C3 of a hypothetical new node with the given bases (or None)."""
    t = _Tmp()
    return c3(t, lambda n: tuple(bases) if n is t else bases_of(n))


def gen_class_dag(rng, n, prefix='K', maxb=3, attrs=None):
    out = []
    for i in range(n):
        k = min(rng.choice([0, 1, 1, 2, 2, 3]), len(out), maxb)
        bases = tuple(rng.sample(out, k))
        try:
            c = type('%s%d' % (prefix, i), bases or (object,), dict(attrs or {}))
        except TypeError:
            c = type('%s%d' % (prefix, i), bases[:1] or (object,), dict(attrs or {}))
        out.append(c)
    return out


def nm(x):
    """Short stable rendering of specs/classes/objects for logs."""
    if x is None:
        return 'None'
    if isinstance(x, (str, int, float, bool)):
        return str(x)
    if isinstance(x, (tuple, list)):
        return '(' + ','.join(nm(i) for i in x) + ')'
    n = getattr(x, '__name__', None)
    if n is not None:
        return str(n)
    n = getattr(x, 'zname', None)
    if n is not None:
        return str(n)
    return type(x).__name__
