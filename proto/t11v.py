import bootso, threading, sys, time
from zope.interface import Interface
from zope.interface.interface import InterfaceClass
from zope.interface.adapter import AdapterRegistry, AdapterLookup
sys.setswitchinterval(1e-5)
class IR(Interface): pass
class IP(Interface): pass
specs=[InterfaceClass('IR%d'%i,(IR,),{}) for i in range(20)]
class Lk(AdapterLookup):
    def changed(self, orig=None):
        junk=[dict() for _ in range(120)]; del junk
        super().changed(orig)
class Reg(AdapterRegistry): LookupClass=Lk
reg=Reg(); reg.register([IR], IP, '', 'x')
stop=False; cnt=[0,0]
def looker():
    while not stop:
        for s in specs:
            reg.lookup([s], IP); cnt[0]+=1
def mut():
    i=0
    while not stop:
        i+=1; reg.register([IR], IP, 'n%d'%(i%5), 'v%d'%i); cnt[1]+=1
ts=[threading.Thread(target=looker) for _ in range(2)]+[threading.Thread(target=mut)]
for t in ts: t.start()
time.sleep(float(sys.argv[1])); stop=True
for t in ts: t.join()
print("survived", cnt)
