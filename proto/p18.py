from zope.interface.common import collections as c, sequence, mapping, io as zio
from zope.interface.verify import verifyObject, verifyClass
from zope.interface import implementer
m = c.ISized['__len__']; print(m.getSignatureInfo(), m.getSignatureString())
m = c.IMutableSequence['insert']; print(m.getSignatureInfo(), m.getSignatureString())
@implementer(c.ISized)
class S:
    def __len__(self, extra): return 0
try: print("verifyObject ISized with __len__(self, extra):", verifyObject(c.ISized, S()))
except Exception as e: print("rejected", e)
try: print("verifyClass:", verifyClass(c.ISized, S))
except Exception as e: print("rejected", e)
