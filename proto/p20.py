import random, sys
from zope.interface import Interface, implementedBy, classImplements
from zope.interface.interface import InterfaceClass
from zope.interface.declarations import Declaration
seed=int(sys.argv[1]); rng=random.Random(seed); bad=0; n=0
def reach(i):
    s=set(); st=list(i.__bases__)
    while st:
        b=st.pop()
        if b not in s: s.add(b); st.extend(b.__bases__)
    return s
for it in range(int(sys.argv[2])):
    ifs=[]
    for i in range(rng.randint(3,8)):
        bases=tuple(rng.sample(ifs,min(len(ifs),rng.choice([0,1,1,2]))))
        try: ifs.append(InterfaceClass('I%d'%i,bases or (Interface,),{},__module__='t%d_%d'%(seed,it)))
        except Exception: pass
    def nest(items):
        out=[]
        for x in items:
            r=rng.random()
            if r<0.2: out.append((x,))
            elif r<0.3: out.append([x,[x]])
            elif r<0.4: out.append(Declaration(x))
            else: out.append(x)
        return out
    def flat(items):
        seen=[];
        for x in items:
            if x not in seen: seen.append(x)
        return seen
    decls=[]
    for d in range(6):
        items=[rng.choice(ifs) for _ in range(rng.randint(0,4))]
        try: D=Declaration(*nest(items))
        except Exception as e: continue
        decls.append((D,flat(items)))
    for A,la in decls:
        n+=1
        if list(A)!=la: bad+=1; print("ITER",[x.__name__ for x in A],[x.__name__ for x in la])
        for i in ifs:
            if (i in A)!=(i in la): bad+=1; print("IN")
        clo=set(la);
        for x in la: clo|=reach(x)
        clo.add(Interface)
        if set(A.flattened())!=clo: bad+=1; print("FLAT")
        for B,lb in decls:
            n+=1
            ext=lambda i,j: i is j or j in reach(i)
            exp_sub=[i for i in la if not any(ext(i,j) for j in lb)]
            if list(A-B)!=exp_sub: bad+=1; print("SUB")
            before=[];res=list(la);seen=set(la)
            for i in lb:
                if i in seen: continue
                seen.add(i)
                if any(x in reach(i) for x in res): before.append(i)
                else: res.append(i)
            try:
                got=list(A+B)
            except Exception as e:
                got=('EXC',type(e).__name__)
            if got!=before+res: bad+=1; print("ADD",got,[x.__name__ for x in before+res])
            if list(A)!=la or list(B)!=lb: bad+=1; print("MUTATED")
print("seed",seed,"n",n,"bad",bad)
