import bootso, threading, sys, time
from zope.interface import Interface
from zope.interface.adapter import AdapterRegistry, AdapterLookup
class IR(Interface): pass
class IP(Interface): pass
inside=threading.Event(); done=threading.Event()
class Lk(AdapterLookup):
    park=False
    def _uncached_lookup(self, required, provided, name=''):
        r=super()._uncached_lookup(required, provided, name)
        if self.park:
            self.park=False
            inside.set(); done.wait(30)
        return r
    def changed(self, orig=None):
        junk=[dict() for _ in range(120)]; del junk
        super().changed(orig)
class Reg(AdapterRegistry): LookupClass=Lk
reg=Reg(); reg.register([IR], IP, '', 'x')
res=[]
def looker():
    reg._v_lookup.park=True
    res.append(reg.lookup([IR], IP))
def mut():
    inside.wait(30)
    reg.register([IR], IP, 'n', 'y')
    done.set()
ts=[threading.Thread(target=looker), threading.Thread(target=mut)]
for t in ts: t.start()
for t in ts: t.join()
print("result", res, "next", reg.lookup([IR], IP))
