import random, sys
from zope.interface import Interface, implementedBy, providedBy, classImplements, classImplementsOnly, directlyProvides
from zope.interface.interface import InterfaceClass
from zope.interface.adapter import AdapterRegistry
seed=int(sys.argv[1]); rng=random.Random(seed); bad=0; n=0; RUN=0
for it in range(int(sys.argv[2])):
    RUN+=1
    ifs=[InterfaceClass('I%d'%i,(Interface,),{},__module__='s%d_%d'%(seed,RUN)) for i in range(5)]
    classes=[]; decl={}; only={}; mdecl={}
    for i in range(rng.randint(2,6)):
        bases=tuple(rng.sample(classes,min(len(classes),rng.choice([0,1,1,2,2]))))
        try: c=type('K%d'%i,bases or (object,),{})
        except TypeError: continue
        classes.append(c); decl[c]=[]; only[c]=False
    def mutate():
        c=rng.choice(classes); sel=rng.sample(ifs,rng.randint(0,2))
        if rng.random()<0.25:
            classImplementsOnly(c,*sel); decl[c]=list(sel); mdecl[c]=list(sel); only[c]=True
        else:
            must=[i for i in sel if not implementedBy(c).isOrExtends(i)]
            classImplements(c,*sel); decl[c]+=sel; mdecl.setdefault(c,[]); mdecl[c]+=must
    def tailset(C,ob,which='U'):
        mro=type(ob).__mro__; tail=mro[mro.index(C)+1:]
        s=set()
        for k in tail: s.update((decl if which=='U' else mdecl).get(k,[]))
        return s
    for _ in range(rng.randint(0,4)): mutate()
    obs=[c() for c in classes]
    for o in obs:
        if rng.random()<0.5: directlyProvides(o,rng.choice(ifs))
    for rnd in range(3):
        for o in obs:
            for C in type(o).__mro__[:-1]:
                s=super(C,o); n+=1
                got=set(providedBy(s).flattened())-{Interface}; got2=set(implementedBy(s).flattened())-{Interface}
                exp=tailset(C,o); low=tailset(C,o,'L')
                if not (low<=got<=exp) or got2!=got:
                    bad+=1
                    if bad<5: print("BAD",C.__name__,[k.__name__ for k in type(o).__mro__],sorted(i.__name__ for i in got),sorted(i.__name__ for i in exp))
        mutate()
print("seed",seed,"queries",n,"bad",bad)
