from zope.interface import Interface
class X(Interface): pass
class Y(Interface): pass
class A(X, Y): pass
class B(A): pass
class C(A): pass
class D(B, C): pass
print([i.__name__ for i in D.__sro__])
try:
    A.__bases__ = (Y, X)
    print("ok", [i.__name__ for i in D.__sro__])
except Exception as e:
    print("RAISED", type(e).__name__)
    print([i.__name__ for i in D.__sro__], [i.__name__ for i in C.__sro__], [i.__name__ for i in B.__sro__])
