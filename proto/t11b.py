import threading, sys, time
from zope.interface import Interface
from zope.interface.interface import InterfaceClass
from zope.interface.adapter import AdapterRegistry
sys.setswitchinterval(1e-6)
class IR(Interface): pass
class IP(Interface): pass
specs=[InterfaceClass('IR%d'%i,(IR,),{}) for i in range(300)]
base=AdapterRegistry(); sub=AdapterRegistry((base,))
base.register([IR], IP, '', 'v0')
stop=False; errs=[]
def looker():
    while not stop:
        for s in specs:
            base.lookup([s], IP)
def mut():
    i=0
    while not stop:
        i+=1
        sub.lookup([IR], IP)   # warm sub cache
        try:
            base.register([IR], IP, '', 'v%d'%i)
        except RuntimeError as e:
            errs.append(i)
            got = sub.lookup([IR], IP)
            if got != 'v%d'%i:
                print("STALE in sub after failed propagation: got", got, "expected", 'v%d'%i); 
                return
ts=[threading.Thread(target=looker) for _ in range(3)]+[threading.Thread(target=mut)]
for t in ts: t.start()
t0=time.time()
while time.time()-t0<20 and ts[-1].is_alive(): time.sleep(0.1)
stop=True
for t in ts: t.join()
print("mutator RuntimeErrors:", len(errs))
