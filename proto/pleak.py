import sys, gc
from zope.interface import Interface
from zope.interface.adapter import AdapterRegistry
class IR(Interface): pass
reg = AdapterRegistry()
def run(n):
    for i in range(n):
        try: reg.lookup([IR], [])
        except TypeError: pass
        try: reg.lookupAll([IR], [])
        except TypeError: pass
        try: reg.subscriptions([IR], [])
        except TypeError: pass
run(100); gc.collect()
b0 = sys.getallocatedblocks(); r0 = sys.getrefcount(IR)
run(5000); gc.collect()
print("blocks delta", sys.getallocatedblocks()-b0, "refcount(IR) delta", sys.getrefcount(IR)-r0)
