import random, sys, itertools
from zope.interface import (Interface, implementer, implementer_only, classImplements, classImplementsOnly,
    classImplementsFirst, directlyProvides, alsoProvides, noLongerProvides, provider, providedBy, implementedBy, directlyProvidedBy)
from zope.interface.interface import InterfaceClass
from zope.interface.declarations import Declaration

RUN=[0]
class World:
    def __init__(self, rng):
        RUN[0]+=1
        self.rng=rng
        self.ifaces=[]
        n=rng.randint(3,7)
        for i in range(n):
            k=rng.choice([0,0,1,1,2])
            bases=tuple(rng.sample(self.ifaces,min(k,len(self.ifaces))))
            try:
                self.ifaces.append(InterfaceClass('I%d'%i,bases or (Interface,),{},__module__='w%d'%RUN[0]))
            except Exception: pass
        self.classes=[]; self.objs=[]
        self.M={}; self.Y={}; self.only={}
        self.log=[]
    def closure(self, ifs):
        s=set()
        for i in ifs:
            s.update(x for x in i.__iro__)
        s.add(Interface)
        return s
    def cbound(self,c,which):
        if c is object: return {Interface}
        d=(self.M if which=='L' else self.Y).get(c,[])
        s=self.closure(d)
        if not self.only.get(c,False):
            for b in c.__bases__:
                s|=self.cbound(b,which)
        return s
    def obound(self,o,which):
        d=(self.M if which=='L' else self.Y).get(id(o),[])
        return self.closure(d)|self.cbound(type(o),which)
    def actual_c(self,c): return set(implementedBy(c).flattened())|{Interface}
    def actual_o(self,o): return set(providedBy(o).flattened())|{Interface}
    def declare_cls(self,c,ifs,reset=False):
        if reset:
            self.M[c]=[];self.Y[c]=[];self.only[c]=True
        L=self.cbound(c,'L');U=self.cbound(c,'U')
        amb=[i for i in ifs if i in U and i not in L]
        act=self.actual_c(c) if amb else None
        for i in ifs:
            self.Y.setdefault(c,[]).append(i)
            if i in L: continue
            if i not in U or i not in act:
                self.M.setdefault(c,[]).append(i)
    def declare_obj(self,o,ifs,keepM=(),keepY=()):
        c=type(o)
        L=self.cbound(c,'L');U=self.cbound(c,'U')
        cand=list(keepM)+list(ifs)
        amb=[i for i in cand if i in U and i not in L]
        act=self.actual_c(c) if amb else None
        M=[]
        for i in cand:
            if i in L: continue
            if i not in U or i not in act: M.append(i)
        self.M[id(o)]=M; self.Y[id(o)]=list(keepY)+list(ifs)
    def check(self,tag):
        bad=[]
        for c in self.classes:
            a=self.actual_c(c);L=self.cbound(c,'L');U=self.cbound(c,'U')
            if not (L<=a<=U): bad.append(('cls',c.__name__,sorted(x.__name__ for x in L-a),sorted(x.__name__ for x in a-U)))
            for i in self.ifaces:
                if i.implementedBy(c)!=(i in a): bad.append(('incons',c.__name__,i.__name__))
        for o in self.objs:
            a=self.actual_o(o);L=self.obound(o,'L');U=self.obound(o,'U')
            if not (L<=a<=U): bad.append(('obj',o.name,sorted(x.__name__ for x in L-a),sorted(x.__name__ for x in a-U)))
            for i in self.ifaces:
                if i.providedBy(o)!=(i in a): bad.append(('incons',o.name,i.__name__))
        return bad
    def step(self):
        rng=self.rng
        ops=['newcls','newcls','newobj','newobj','ci','ci','cio','cif','dp','dp','ap','ap','nlp','deco','decoonly']
        op=rng.choice(ops)
        pick=lambda: rng.sample(self.ifaces,rng.randint(0,min(3,len(self.ifaces))))
        if op=='newcls' or not self.classes:
            k=rng.choice([0,1,1,2,2,3])
            bases=tuple(rng.sample(self.classes,min(k,len(self.classes))))
            try:
                c=type('C%d'%len(self.classes),bases or (object,),{})
            except TypeError: return ('skip',)
            self.classes.append(c); return ('newcls',c.__name__,[b.__name__ for b in bases])
        c=rng.choice(self.classes)
        if op=='newobj' or not self.objs:
            o=c(); o.name='o%d'%len(self.objs); self.objs.append(o); return ('newobj',o.name,c.__name__)
        o=rng.choice(self.objs)
        ifs=pick()
        names=[i.__name__ for i in ifs]
        if op=='ci': self.declare_cls(c,ifs); classImplements(c,*ifs); return (op,c.__name__,names)
        if op=='deco': self.declare_cls(c,ifs); implementer(*ifs)(c); return (op,c.__name__,names)
        if op=='cio': self.declare_cls(c,ifs,reset=True); classImplementsOnly(c,*ifs); return (op,c.__name__,names)
        if op=='decoonly': self.declare_cls(c,ifs,reset=True); implementer_only(*ifs)(c); return (op,c.__name__,names)
        if op=='cif':
            if not ifs: return ('skip',)
            self.declare_cls(c,ifs[:1]); classImplementsFirst(c,ifs[0]); return (op,c.__name__,names[:1])
        if op=='dp': self.declare_obj(o,ifs); directlyProvides(o,*ifs); return (op,o.name,names)
        if op=='ap':
            self.declare_obj(o,ifs,keepM=self.M.get(id(o),[]),keepY=self.Y.get(id(o),[])); alsoProvides(o,*ifs); return (op,o.name,names)
        if op=='nlp':
            if not ifs: return ('skip',)
            i=ifs[0]
            keepM=[p for p in self.M.get(id(o),[]) if not p.isOrExtends(i)]
            keepY=[p for p in self.Y.get(id(o),[]) if not p.isOrExtends(i)]
            self.declare_obj(o,[],keepM=keepM,keepY=keepY)
            Lc=self.cbound(type(o),'L');Uc=self.cbound(type(o),'U')
            try:
                noLongerProvides(o,i); raised=False
            except ValueError: raised=True
            if i in Lc and not raised: return ('VIOL-nlp-noraise',o.name,i.__name__)
            if i not in Uc and raised: return ('VIOL-nlp-raise',o.name,i.__name__)
            return (op,o.name,names[:1],raised)
        return ('skip',)

seed=int(sys.argv[1]); rng=random.Random(seed)
nviol=0; kinds={}
for it in range(int(sys.argv[2]) if len(sys.argv)>2 else 200):
    w=World(rng)
    for s in range(rng.randint(5,30)):
        ev=w.step(); w.log.append(ev)
        if ev[0].startswith('VIOL'):
            nviol+=1; print(ev); break
        bad=w.check(ev)
        if bad:
            nviol+=1
            k=bad[0][0]; kinds[k]=kinds.get(k,0)+1
            if nviol<=6:
                print("VIOLATION after",len(w.log),"steps:",bad[:2]); print("  log:",w.log[-8:])
            break
print("seed",seed,"violations",nviol,kinds)
