import boot, sys, gc
from zope.interface import Interface
from zope.interface.adapter import AdapterRegistry, AdapterLookup
class IR(Interface): pass
class IP(Interface): pass
def cache_roots(lk):
    own = {id(v) for v in vars(lk).values()}
    return [d for d in gc.get_referents(lk) if type(d) is dict and id(d) not in own and d is not vars(lk)]
held = {}
class Lk(AdapterLookup):
    hook = None
    def _uncached_lookup(self, required, provided, name=''):
        r = super()._uncached_lookup(required, provided, name)
        if self.hook: self.hook()
        return r
class Reg(AdapterRegistry):
    LookupClass = Lk
reg = Reg()
reg.register([IR], IP, '', 'x')
def hook():
    lk = reg._v_lookup
    lk.hook = None
    roots = cache_roots(lk)
    print("roots", roots)
    inner = [d for d in roots if IP in d][0][IP]
    held['inner'] = inner; held['id']=id(inner)
    print("rc before mutation", sys.getrefcount(inner))
    reg.register([IR], IP, 'n', 'y')
    print("rc after mutation", sys.getrefcount(inner), "roots now", cache_roots(lk))
reg._v_lookup.hook = hook
print(reg.lookup([IR], IP))
print("inner after return", held['inner'], sys.getrefcount(held['inner']))
