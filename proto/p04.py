import random, sys
from zope.interface import Interface, implementedBy, providedBy, classImplements, directlyProvides
from zope.interface.interface import InterfaceClass
from zope.interface.adapter import AdapterRegistry, VerifyingAdapterRegistry
RUN=[0]
def dag(rng, prefix, n):
    out=[]
    for i in range(n):
        k=rng.choice([0,1,1,2])
        bases=tuple(rng.sample(out,min(k,len(out))))
        try: out.append(InterfaceClass('%s%d'%(prefix,i),bases or (Interface,),{},__module__='m%d'%RUN[0]))
        except Exception: pass
    return out
def c3(node,bases_of,memo):
    if node in memo: return memo[node]
    seqs=[list(c3(b,bases_of,memo)) for b in bases_of(node)]+[list(bases_of(node))]
    res=[node]; seqs=[s for s in seqs if s]
    while seqs:
        for s in seqs:
            c=s[0]
            if not any(c in t[1:] for t in seqs): break
        else: raise ValueError
        res.append(c); seqs=[[x for x in s if x is not c] for s in seqs]; seqs=[s for s in seqs if s]
    memo[node]=res; return res

class Model:
    def __init__(self): self.regs={}; self.subs={}  # registry -> {(req,prov,name):value}; registry -> list of (req,prov,value)
    def applicable(self, key_req, req):
        pos=[]
        for kr, r in zip(key_req, req):
            sro=list(r.__sro__)
            idx=[i for i,s in enumerate(sro) if s is kr]   # identity
            if not idx: return None
            pos.append(idx[0])
        return tuple(pos)
    def lookup(self, registry, req, prov, name):
        ro=c3(registry, lambda r: r.__bases__, {})
        for reg in ro:
            cands=[]
            for (kreq,kprov,kname),v in self.regs.get(reg,{}).items():
                if kname!=name or len(kreq)!=len(req): continue
                if not kprov.isOrExtends(prov): continue
                pos=self.applicable(kreq,req)
                if pos is None: continue
                cands.append((pos,kprov,v))
            if cands:
                best=min(c[0] for c in cands)
                tied=[c for c in cands if c[0]==best]
                minimal=[c for c in tied if not any(o is not c and c[1] is not o[1] and c[1].extends(o[1]) for o in tied)]
                return [c[2] for c in minimal]
        return [None]

seed=int(sys.argv[1]); rng=random.Random(seed); bad=0; amb=0; total=0; hits=0
for it in range(int(sys.argv[2])):
    RUN[0]+=1
    R=dag(rng,'R',rng.randint(2,6)); P=dag(rng,'P',rng.randint(1,4))
    classes=[]
    for i in range(rng.randint(1,3)):
        bases=tuple(rng.sample(classes,min(len(classes),rng.choice([0,1,1,2]))))
        try: c=type('K%d'%i,bases or (object,),{})
        except TypeError: continue
        classImplements(c,*rng.sample(R,rng.randint(0,min(2,len(R))))); classes.append(c)
    Reg=rng.choice([AdapterRegistry,VerifyingAdapterRegistry])
    regs=[]
    for i in range(rng.randint(1,4)):
        bases=tuple(rng.sample(regs,min(len(regs),rng.choice([0,1,1,2]))))
        try:
            c3(type('x',(),{'__bases__':bases})(), lambda r:r.__bases__, {})
            regs.append(Reg(bases))
        except ValueError: pass
    m=Model()
    keyspecs=R+[implementedBy(c) for c in classes]+[None]
    lookspecs=R+[implementedBy(c) for c in classes]+[providedBy(c()) for c in classes]
    for j in range(rng.randint(3,25)):
        reg=rng.choice(regs); ar=rng.choice([0,1,1,1,2,2,3])
        req=tuple(rng.choice(keyspecs) for _ in range(ar)); prov=rng.choice(P); name=rng.choice(['','','a','b'])
        val='v%d'%j
        reg.register(req,prov,name,val)
        m.regs.setdefault(reg,{})[(tuple(Interface if r is None else r for r in req),prov,name)]=val
        # interleave lookups (cache warm)
        for q in range(rng.randint(0,4)):
            lr=rng.choice(regs); ar=rng.choice([0,1,1,1,2,2,3])
            lreq=tuple(rng.choice(lookspecs) for _ in range(ar)); lprov=rng.choice(P+[Interface]); lname=rng.choice(['','a','b'])
            got=lr.lookup(lreq,lprov,lname); exp=m.lookup(lr,lreq,lprov,lname); total+=1
            if got is not None: hits+=1
            if len(exp)>1: amb+=1
            if got not in exp:
                bad+=1
                if bad<5: print("MISMATCH",got,exp,[r.__name__ if hasattr(r,'__name__') else r for r in lreq],lprov.__name__,lname)
print("seed",seed,"lookups",total,"hits",hits,"ambiguous",amb,"bad",bad)
