import os, sys
from zope.interface import Interface, implementer, implementer_only, classImplementsOnly, directlyProvides, providedBy, implementedBy
from zope.interface import ro
import pickle
print("C impl:", type(Interface).__mro__[2] if False else implementedBy.__module__ if hasattr(implementedBy,'__module__') else implementedBy)

class I(Interface): pass
# C01
@implementer(I)
class A: pass
a=A(); directlyProvides(a, I)
classImplementsOnly(A)
b=A(); directlyProvides(b, I)
print("C01 I.providedBy(b) after narrowing:", I.providedBy(b), "a:", I.providedBy(a))

# C03
class I0(Interface): pass
class I1(I0): pass
class I3(I0, I1): pass
print("C03 is_consistent(I3):", ro.is_consistent(I3))
try:
    ro.ro(I3, strict=True); print("strict ok")
except ro.InconsistentResolutionOrderError as e: print("strict raises")

# C13
class IP(Interface): pass
import modp
s = implementedBy(modp.Only)
s2 = pickle.loads(pickle.dumps(s))
print("C13 only spec roundtrip identical:", s2 is s, list(s2), list(s))
s = implementedBy(modp.Base); print("C13 base identical", pickle.loads(pickle.dumps(s)) is s)

# C15
class IBase(Interface):
    def foo(): "base"
class IBase1(IBase): pass
class IBase2(IBase):
    def foo(x): "base2"
class ISub(IBase1, IBase2): pass
print("C15", ISub['foo'].interface.__name__, dict(ISub.namesAndDescriptions(all=True))['foo'].interface.__name__)

# C18
from zope.interface.interface import fromFunction
def f(a, b=1, *args, k=1, **kw): pass
print("C18", fromFunction(f).getSignatureString())

# C06
from zope.interface.adapter import AdapterRegistry, VerifyingAdapterRegistry
for R in AdapterRegistry, VerifyingAdapterRegistry:
    top1=R(); top2=R(); mid=R((top1,)); bot=R((mid,))
    top1.register([I], IP, '', 'T1'); top2.register([I], IP, '', 'T2')
    print("C06", R.__name__, bot.lookup([I], IP))
    mid.__bases__=(top2,)
    print("   after rebase mid:", bot.lookup([I], IP), "mid:", mid.lookup([I],IP), [id(x)==id(top2) for x in bot.ro])
