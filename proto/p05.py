import random, sys, gc
from zope.interface import Interface, implementedBy, providedBy, classImplements, classImplementsOnly, directlyProvides, alsoProvides, noLongerProvides
from zope.interface.interface import InterfaceClass
from zope.interface.adapter import AdapterRegistry, VerifyingAdapterRegistry
RUN=[0]
def dag(rng,prefix,n):
    out=[]
    for i in range(n):
        k=rng.choice([0,1,1,2]); bases=tuple(rng.sample(out,min(k,len(out))))
        try: out.append(InterfaceClass('%s%d'%(prefix,i),bases or (Interface,),{},__module__='q%d'%RUN[0]))
        except Exception: pass
    return out
def c3ok(bases):
    try: type('x',tuple(bases),{}); return True
    except TypeError: return False
class Fac:
    def __init__(s,n): s.n=n
    def __call__(s,*obs): return (s.n,)+tuple(getattr(o,'nm',repr(type(o))) for o in obs)
    def __repr__(s): return 'F%s'%s.n
seed=int(sys.argv[1]); rng=random.Random(seed); bad=0; probes=0; changed_after=0
kinds={}
for it in range(int(sys.argv[2])):
    RUN[0]+=1
    R=dag(rng,'R',rng.randint(3,6)); P=dag(rng,'P',rng.randint(1,3))
    classes=[]
    for i in range(rng.randint(1,3)):
        bases=tuple(rng.sample(classes,min(len(classes),rng.choice([0,1,1]))))
        c=type('K%d'%i,bases or (object,),{}); classImplements(c,*rng.sample(R,rng.randint(0,2))); classes.append(c)
    objs=[]
    for i in range(3):
        o=rng.choice(classes)(); o.nm='o%d'%i; objs.append(o)
    Reg=rng.choice([AdapterRegistry,VerifyingAdapterRegistry])
    # registry class shadows: python mirror classes for C3
    nreg=rng.randint(1,3); regs=[]; pyreg=[]
    for i in range(nreg):
        idx=rng.sample(range(len(regs)),min(len(regs),rng.choice([0,1,1,2])))
        try: pc=type('PR%d'%i,tuple(pyreg[j] for j in idx) or (object,),{})
        except TypeError: idx=[]; pc=type('PR%d'%i,(object,),{})
        pyreg.append(pc); regs.append(Reg(tuple(regs[j] for j in idx)))
    log=[]  # mutation log for registries: (regidx, method, args)
    def apply(rs,entry):
        ri,meth,args=entry
        if meth=='bases': rs[ri].__bases__=tuple(rs[j] for j in args)
        else: getattr(rs[ri],meth)(*args)
    def cold():
        rs=[]
        for i in range(nreg): rs.append(Reg(()))
        # initial bases are logged as first entries
        for e in log: apply(rs,e)
        return rs
    for i,r in enumerate(regs):
        log.append((i,'bases',[regs.index(b) for b in r.__bases__]))
    keyspecs=lambda: R+[implementedBy(c) for c in classes]+[None]
    lookspecs=lambda: R+[implementedBy(c) for c in classes]+[providedBy(o) for o in objs]
    seenkeys=[]
    ctr=[0]
    def mutate():
        k=rng.choice(['register','register','unregister','subscribe','unsubscribe','regbases','specbases','classimpl','dprov'])
        kinds[k]=kinds.get(k,0)+1
        ri=rng.randrange(nreg)
        ar=rng.choice([0,1,1,1,2,2])
        req=tuple(rng.choice(keyspecs()) for _ in range(ar)); prov=rng.choice(P); name=rng.choice(['','','a'])
        if k=='register':
            ctr[0]+=1; e=(ri,'register',(req,prov,name,Fac(ctr[0])))
        elif k=='unregister':
            regd=[x for x in log if x[1]=='register']
            if not regd: return
            x=rng.choice(regd); e=(x[0],'unregister',x[2][:3])
        elif k=='subscribe':
            ctr[0]+=1; e=(ri,'subscribe',(req,rng.choice(P+[None]),Fac(ctr[0])))
        elif k=='unsubscribe':
            subd=[x for x in log if x[1]=='subscribe']
            if not subd: return
            x=rng.choice(subd); e=(x[0],'unsubscribe',x[2][:2]+((x[2][2],) if rng.random()<.5 else ()))
        elif k=='regbases':
            i=rng.randrange(nreg); idx=rng.sample(range(i),min(i,rng.choice([0,1,1,2])))
            # keep python mirror consistent
            try: 
                pyreg[i].__bases__=tuple(pyreg[j] for j in idx) or (object,)
            except TypeError: return
            e=(i,'bases',idx)
        elif k=='specbases':
            i=rng.randrange(1,len(R)); nb=tuple(rng.sample(R[:i],min(i,rng.choice([0,1,2])))) or (Interface,)
            try: R[i].__bases__=nb
            except Exception as ex: print("specbases exc",type(ex)); 
            return
        elif k=='classimpl':
            c=rng.choice(classes); sel=rng.sample(R,rng.randint(0,2))
            (classImplementsOnly if rng.random()<.3 else classImplements)(c,*sel); return
        elif k=='dprov':
            o=rng.choice(objs); sel=rng.sample(R,rng.randint(0,2))
            r=rng.random()
            if r<.4: directlyProvides(o,*sel)
            elif r<.7: alsoProvides(o,*sel)
            elif sel:
                try: noLongerProvides(o,sel[0])
                except ValueError: pass
            return
        log.append(e); apply(regs,e)
    def ask(rs,q):
        ep,ri,req,prov,name,obs=q
        r=rs[ri]; D=dflt
        try:
            if ep=='lookup': return r.lookup(req,prov,name,D)
            if ep=='lookup1': return r.lookup1(req[0],prov,name,D)
            if ep=='lookupAll': return sorted(r.lookupAll(req,prov),key=lambda kv:kv[0])
            if ep=='names': return sorted(r.names(req,prov))
            if ep=='subscriptions': return list(r.subscriptions(req,prov))
            if ep=='queryAdapter': return r.queryAdapter(obs[0],prov,name,D)
            if ep=='adapter_hook': return r.adapter_hook(prov,obs[0],name,D)
            if ep=='queryMultiAdapter': return r.queryMultiAdapter(obs,prov,name,D)
            if ep=='subscribers': return r.subscribers(obs,prov)
        except Exception as ex:
            return ('EXC',type(ex).__name__,str(ex)[:60])
    dflt=object()
    def newq():
        ep=rng.choice(['lookup','lookup1','lookupAll','names','subscriptions','queryAdapter','adapter_hook','queryMultiAdapter','subscribers'])
        ri=rng.randrange(nreg)
        ar=1 if ep in('lookup1','queryAdapter','adapter_hook') else rng.choice([0,1,1,2])
        obs=tuple(rng.choice(objs) for _ in range(ar))
        if ep in ('queryAdapter','adapter_hook','queryMultiAdapter','subscribers'):
            req=None
        else:
            req=tuple(rng.choice(lookspecs()) for _ in range(ar))
        prov=rng.choice(P+[Interface]) if ep!='subscriptions' and ep!='subscribers' else rng.choice(P+[None])
        return (ep,ri,req,prov,rng.choice(['','a']),obs)
    for step in range(rng.randint(5,25)):
        for _ in range(rng.randint(1,3)): mutate()
        # probes: old keys + new
        qs=seenkeys[-12:]+[newq() for _ in range(4)]
        cr=cold()
        for q in qs:
            # for spec-keyed queries where spec was providedBy(o) that may have been replaced: keep as is (still a valid spec)
            w=ask(regs,q); c=ask(cr,q); probes+=1
            if w!=c:
                bad+=1
                if bad<6: print("MISMATCH",q[0],q[1],"warm",w,"cold",c, "last", log[-3:])
        for q in qs[-4:]: seenkeys.append(q)
        if rng.random()<.3: gc.collect()
print("seed",seed,"probes",probes,"bad",bad,kinds)
