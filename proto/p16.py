import random, sys
from zope.interface import Interface, implementer
from zope.interface.interface import InterfaceClass
from zope.interface import registry as zr
from zope.interface.registry import Components
from zope.interface.adapter import AdapterRegistry
events=[]
zr.notify=lambda ev: events.append(ev)
class Comp:
    def __init__(s,k,i,hashable=True): s.k=k;s.i=i;s.h=hashable
    def __eq__(s,o): return isinstance(o,Comp) and s.k==o.k
    def __ne__(s,o): return not s==o
    def __hash__(s):
        if not s.h: raise TypeError("unhashable")
        return hash(s.k)
    def __repr__(s): return 'Comp(%s,%s,%s)'%(s.k,s.i,'h' if s.h else 'u')
    def __call__(s,*a): return (s.k,)
seed=int(sys.argv[1]); rng=random.Random(seed); bad=0; steps=0
for it in range(int(sys.argv[2])):
    P=[InterfaceClass('P%d'%i,(Interface,),{},__module__='c%d_%d'%(seed,it)) for i in range(2)]
    P.append(InterfaceClass('P2',(P[0],),{},__module__='c%d_%d'%(seed,it)))
    R=[InterfaceClass('R%d'%i,(Interface,),{},__module__='c%d_%d'%(seed,it)) for i in range(2)]
    comps=Components()
    util={}  # (prov,name)->(comp,info)
    adap={}  # (req,prov,name)->(fac,info)
    subs=[]; hand=[]
    ctr=0
    hashmode = rng.random()<0.7
    for step in range(rng.randint(5,30)):
        steps+=1
        del events[:]
        op=rng.choice(['ru','ru','uu','ra','ua','rs','us','rh','uh'])
        ctr+=1
        k=rng.randint(0,3); c=Comp(k,ctr, hashmode or k<2)
        prov=rng.choice(P); name=rng.choice(['','a','b']); req=tuple(rng.choice(R) for _ in range(rng.choice([1,1,2]))); info=rng.choice(['','i'])
        if op=='ru':
            old=util.get((prov,name))
            comps.registerUtility(c,prov,name,info)
            if old is not None and old==(c,info): exp=[]
            else:
                exp=(['U'] if old is not None else [])+['R']; util[(prov,name)]=(c,info)
        elif op=='uu':
            usec = rng.random()<.6
            old=util.get((prov,name))
            r=comps.unregisterUtility(c if usec else None,prov,name)
            should = old is not None and (not usec or old[0]==c)
            if r!=should: bad+=1; print("RET uu",r,should)
            exp=['U'] if should else []
            if should: del util[(prov,name)]
        elif op=='ra':
            comps.registerAdapter(c,req,prov,name,info); adap[(req,prov,name)]=(c,info); exp=['R']
        elif op=='ua':
            usec=rng.random()<.6; old=adap.get((req,prov,name))
            r=comps.unregisterAdapter(c if usec else None,req,prov,name)
            should= old is not None and (not usec or old[0]==c)
            if r!=should: bad+=1; print("RET ua")
            exp=['U'] if should else []
            if should: del adap[(req,prov,name)]
        elif op=='rs':
            comps.registerSubscriptionAdapter(c,req,prov,info=info); subs.append((req,prov,c)); exp=['R']
        elif op=='us':
            usec=rng.random()<.6
            r=comps.unregisterSubscriptionAdapter(c if usec else None,req,prov)
            new=[s for s in subs if not (s[0]==req and s[1] is prov and (not usec or s[2]==c))]
            should=len(new)!=len(subs); subs=new
            if r!=should: bad+=1; print("RET us")
            exp=['U'] if should else []
        elif op=='rh':
            comps.registerHandler(c,req,info=info); hand.append((req,c)); exp=['R']
        elif op=='uh':
            usec=rng.random()<.6
            r=comps.unregisterHandler(c if usec else None,req)
            new=[h for h in hand if not (h[0]==req and (not usec or h[1]==c))]
            should=len(new)!=len(hand); hand=new
            if r!=should: bad+=1; print("RET uh")
            exp=['U'] if should else []
        got=['R' if isinstance(e,zr.Registered) else 'U' for e in events]
        if got!=exp: bad+=1; print("EVENTS",op,got,exp)
        # listings
        lu={(r.provided,r.name):(r.component,r.info) for r in comps.registeredUtilities()}
        if lu!=util: bad+=1; print("LIST util")
        la={(r.required,r.provided,r.name):(r.factory,r.info) for r in comps.registeredAdapters()}
        if la!=adap: bad+=1; print("LIST adap")
        ls=[(r.required,r.provided,r.factory) for r in comps.registeredSubscriptionAdapters()]
        if ls!=subs: bad+=1; print("LIST subs",ls,subs)
        lh=[(r.required,r.factory) for r in comps.registeredHandlers()]
        if lh!=hand: bad+=1; print("LIST hand")
        rb=comps.rebuildUtilityRegistryFromLocalCache()
        if rb['needed_registered'] or rb['needed_subscribed']: bad+=1; print("REBUILD",rb,op,c)
        # queries vs fresh
        fresh=AdapterRegistry(); seen=[]
        for (p,n),(cc,i) in util.items():
            fresh.register((),p,n,cc)
            if not any(sp is p and sc==cc for sp,sc in seen): fresh.subscribe((),p,cc); seen.append((p,cc))
        for p in P:
            for n in ['','a','b']:
                if comps.queryUtility(p,n)!=fresh.lookup((),p,n): bad+=1; print("QU")
            a=comps.getAllUtilitiesRegisteredFor(p); b=fresh.subscriptions((),p)
            if len(a)!=len(b) or any(sum(1 for x in a if x==y)!=sum(1 for x in b if x==y) for y in a): bad+=1; print("GAURF",a,b,op,c,util)
print("seed",seed,"steps",steps,"bad",bad)
