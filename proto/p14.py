from zope.interface import Interface, interfacemethod
class IBase(Interface):
    @interfacemethod
    def __adapt__(self, obj):
        return ('custom', self.__name__)
class IDer(IBase): pass
class IDer2(IBase):
    @interfacemethod
    def other(self): return 1
for I in IBase, IDer, IDer2:
    try: print(I.__name__, type(I).__name__, I(object()))
    except TypeError as e: print(I.__name__, type(I).__name__, "TypeError", e.args[0])
