import threading, sys, time
from zope.interface import Interface
from zope.interface.adapter import AdapterRegistry
sys.setswitchinterval(1e-5)
class IR(Interface): pass
class IP(Interface): pass
specs=[type(Interface)('IR%d'%i,(IR,),{}) for i in range(50)]
reg=AdapterRegistry()
reg.register([IR], IP, '', 'x')
stop=False
def looker():
    n=0
    while not stop:
        for s in specs:
            reg.lookup([s], IP)
            reg.lookupAll([s], IP)
            reg.subscriptions([s], IP)
def mut():
    i=0
    while not stop:
        i+=1
        reg.register([IR], IP, 'n%d'%(i%5), 'v%d'%i)
ts=[threading.Thread(target=looker) for _ in range(3)]+[threading.Thread(target=mut)]
for t in ts: t.start()
time.sleep(float(sys.argv[1]) if len(sys.argv)>1 else 10)
stop=True
for t in ts: t.join()
print("survived")
