import boot, sys, gc
from zope.interface import Interface
from zope.interface.adapter import AdapterRegistry, AdapterLookup
import zope.interface._zope_interface_coptimizations as c
print(c.__file__, AdapterLookup.__mro__)
class IR(Interface): pass
class IP(Interface): pass
class Lk(AdapterLookup):
    hook = None
    flood = False
    def _uncached_lookup(self, required, provided, name=''):
        r = super()._uncached_lookup(required, provided, name)
        if self.hook: self.hook()
        return r
    def changed(self, orig=None):
        if self.flood:
            print("flooding")
            junk = [dict() for _ in range(200)]
            del junk
        super().changed(orig)
class Reg(AdapterRegistry):
    LookupClass = Lk
reg = Reg()
reg.register([IR], IP, '', 'x')
def hook():
    print("hook")
    reg._v_lookup.hook = None
    reg._v_lookup.flood = True
    reg.register([IR], IP, 'n', 'y')
    reg._v_lookup.flood = False
reg._v_lookup.hook = hook
print(reg.lookup([IR], IP))
print("returned")
