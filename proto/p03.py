import random, sys, os
from zope.interface import Interface
from zope.interface.interface import InterfaceClass
from zope.interface import ro

def c3(node, bases_of, memo=None):
    """independent C3; returns list or None if inconsistent (any ancestor)"""
    if memo is None: memo = {}
    if node in memo: return memo[node]
    seqs = []
    for b in bases_of(node):
        l = c3(b, bases_of, memo)
        if l is None:
            memo[node] = None; return None
        seqs.append(list(l))
    seqs.append(list(bases_of(node)))
    res = [node]
    seqs = [s for s in seqs if s]
    while seqs:
        for s in seqs:
            cand = s[0]
            if not any(cand in t[1:] for t in seqs):
                break
        else:
            memo[node] = None; return None
        res.append(cand)
        seqs = [[x for x in s if x is not cand] for s in seqs]
        seqs = [s for s in seqs if s]
    memo[node] = res
    return res

GEN=[0]
def gen(rng, n):
    GEN[0]+=1
    nodes = []
    for i in range(n):
        k = rng.choice([0,1,1,2,2,3]) if nodes else 0
        bases = tuple(rng.sample(nodes, min(k, len(nodes))))
        try:
            nodes.append(InterfaceClass('N%d' % i, bases or (Interface,), {}, __module__='gen%d' % GEN[0]))
        except ro.InconsistentResolutionOrderError:
            pass
    return nodes

def pybases(node):
    return node.__bases__

def check(nodes, tag):
    bad = 0
    memo = {}
    bases_of = lambda n: () if n is Interface else n.__bases__
    for n in nodes:
        exp = c3(n, bases_of, memo)
        sro = list(n.__sro__)
        # validity
        assert sro[0] is n and sro[-1] is Interface and len(set(map(id, sro))) == len(sro)
        if exp is not None:
            if sro != exp:
                print(tag, "MISMATCH", n, [x.__name__ for x in sro], [x.__name__ for x in exp]); bad += 1
        cons = ro.is_consistent(n)
        try:
            ro.ro(n, strict=True); strict_ok = True
        except ro.InconsistentResolutionOrderError:
            strict_ok = False
        if strict_ok != (exp is not None):
            print(tag, "STRICT MISMATCH", n, strict_ok, exp is not None); bad += 1
        if cons != (exp is not None):
            bad += 0  # known defect
    return bad

seed = int(sys.argv[1]); rng = random.Random(seed)
tot = 0; incons = 0; rebase_err = 0
for it in range(300):
    nodes = gen(rng, rng.randint(3, 9))
    tot += check(nodes, "fresh")
    # rebase history
    for step in range(4):
        i = rng.randrange(1, len(nodes))
        cand = nodes[:i]
        k = rng.randint(0, min(3, len(cand)))
        nb = tuple(rng.sample(cand, k)) or (Interface,)
        try:
            nodes[i].__bases__ = nb
        except Exception as e:
            rebase_err += 1
            memo = {}
            exp = c3(nodes[i], lambda n: () if n is Interface else n.__bases__, memo)
            # are all nodes consistent in final graph?
            allc = all(c3(n, lambda n: () if n is Interface else n.__bases__, memo) is not None for n in nodes)
            print("rebase error", type(e).__name__, "final graph all consistent:", allc)
        tot += check(nodes, "rebased")
print("seed", seed, "bad", tot, "rebase_err", rebase_err)
