from zope.interface import Interface, implementer, implementer_only, provider, directlyProvides, classImplementsFirst
class IP(Interface):
    def meth_unique_name_xyz(): "doc_unique_abc"
class IQ(IP): pass
class IR(Interface): pass
@implementer(IP)
class Base: pass
class Sub(Base): pass
@implementer_only(IQ)
class Only(Base): pass
@provider(IR)
@implementer(IQ)
class Prov: pass
class Inst(Base): pass
