import random, sys
from zope.interface import Interface, implementedBy, providedBy, classImplements
from zope.interface.interface import InterfaceClass
from zope.interface.adapter import AdapterRegistry, VerifyingAdapterRegistry
from p05 import dag, RUN, Fac
seed=int(sys.argv[1]); rng=random.Random(seed); bad=0; n=0
class V:
    def __init__(s,k,i): s.k=k;s.i=i
    def __eq__(s,o): return isinstance(o,V) and s.k==o.k
    def __hash__(s): return hash(s.k)
    def __call__(s,*obs): return None if s.k==0 else (s.k,s.i)+tuple(id(o) for o in obs)
    def __repr__(s): return 'V(%s,%s)'%(s.k,s.i)
for it in range(int(sys.argv[2])):
    RUN[0]+=1
    R=dag(rng,'R',rng.randint(2,5)); P=dag(rng,'P',rng.randint(1,3))
    classes=[]
    for i in range(2):
        c=type('K%d'%i,tuple(classes[:rng.randint(0,len(classes))]) or (object,),{}); classImplements(c,*rng.sample(R,rng.randint(0,2))); classes.append(c)
    objs=[rng.choice(classes)() for _ in range(3)]
    Reg=rng.choice([AdapterRegistry,VerifyingAdapterRegistry]); base=Reg(); reg=Reg((base,))
    ledger={base:{},reg:{}}; ctr=0
    keys=[]
    for step in range(rng.randint(5,40)):
        r=rng.choice([base,reg]); ar=rng.choice([0,1,1,2]); req=tuple(rng.choice(R+[implementedBy(c) for c in classes]+[None]) for _ in range(ar)); prov=rng.choice(P); name=rng.choice(['','a','b'])
        nreq=tuple(Interface if x is None else x for x in req); key=(nreq,prov,name)
        op=rng.choice(['reg','reg','reg','same','unreg','unregv','unregeq','regnone','sub'])
        ctr+=1
        if op=='reg': v=V(rng.randint(0,2),ctr); r.register(req,prov,name,v); ledger[r][key]=v; keys.append((r,key))
        elif op=='sub': r.subscribe(req,prov,V(rng.randint(0,2),ctr))
        elif keys:
            r,key=rng.choice(keys); cur=ledger[r].get(key)
            if op=='same' and cur is not None: r.register(key[0],key[1],key[2],cur)
            elif op=='unreg': r.unregister(*key); ledger[r].pop(key,None)
            elif op=='regnone': r.register(key[0],key[1],key[2],None); ledger[r].pop(key,None)
            elif op=='unregv' and cur is not None: r.unregister(key[0],key[1],key[2],cur); ledger[r].pop(key,None)
            elif op=='unregeq' and cur is not None: r.unregister(key[0],key[1],key[2],V(cur.k,-1))  # equal not identical: no-op
        # C09 checks
        for rr in (base,reg):
            for (r2,k) in keys:
                if r2 is rr:
                    n+=1
                    if rr.registered(*k) is not ledger[rr].get(k): bad+=1; print("REGISTERED")
            allr={(a,b,c):d for a,b,c,d in rr.allRegistrations()}
            if set(allr)!=set(ledger[rr]) or any(allr[k] is not ledger[rr][k] for k in allr): bad+=1; print("ALLREG")
        # C08 checks on reg
        D=object()
        for q in range(4):
            ar=rng.choice([0,1,1,2]); obs=tuple(rng.choice(objs) for _ in range(ar)); lreq=tuple(providedBy(o) for o in obs); lp=rng.choice(P+[Interface])
            order=rng.sample(['lookup','lookupAll','lookup1','qa','hook','qma'],6)
            res={}
            for ep in order:
                n+=1
                if ep=='lookupAll':
                    la=dict(reg.lookupAll(lreq,lp)); nm=sorted(reg.names(lreq,lp))
                    if nm!=sorted(la): bad+=1; print("NAMES")
                    for nme in ['','a','b']:
                        l=reg.lookup(lreq,lp,nme,D)
                        if (la.get(nme,D) is not l): bad+=1; print("LOOKUPALL",nme,la.get(nme),l)
                elif ep=='lookup1' and ar==1:
                    for nme in ['','a']:
                        if reg.lookup1(lreq[0],lp,nme,D) is not reg.lookup(lreq,lp,nme,D): bad+=1; print("LOOKUP1")
                elif ep in('qa','hook') and ar==1:
                    for nme in ['','a']:
                        f=reg.lookup(lreq,lp,nme)
                        exp=D if f is None else (f(obs[0]) if f(obs[0]) is not None else D)
                        got=reg.queryAdapter(obs[0],lp,nme,D) if ep=='qa' else reg.adapter_hook(lp,obs[0],nme,D)
                        if got!=exp and not (got is exp): bad+=1; print("QA",ep,got,exp)
                elif ep=='qma':
                    for nme in ['','a']:
                        f=reg.lookup(lreq,lp,nme)
                        exp=D if f is None else (f(*obs) if f(*obs) is not None else D)
                        got=reg.queryMultiAdapter(obs,lp,nme,D)
                        if got!=exp and not (got is exp): bad+=1; print("QMA")
            for badname in (None,b'x',3):
                for call in (lambda: reg.lookup(lreq,lp,badname), lambda: reg.lookup1(lreq[0] if ar else Interface,lp,badname), lambda: reg.queryAdapter(objs[0],lp,badname), lambda: reg.adapter_hook(lp,objs[0],badname), lambda: reg.queryMultiAdapter(obs,lp,badname)):
                    try: call(); bad+=1; print("NOVALUEERROR")
                    except ValueError: pass
            subs=reg.subscriptions(lreq,lp); got=reg.subscribers(obs,lp)
            exp=[s(*obs) for s in subs if s(*obs) is not None]
            if got!=exp: bad+=1; print("SUBSCRIBERS")
        if rng.random()<.2:
            # rebuild / replay differential on unambiguous probes skipped; just check rebuild keeps registrations
            before={(a,b,c):d for a,b,c,d in reg.allRegistrations()}; reg.rebuild(); after={(a,b,c):d for a,b,c,d in reg.allRegistrations()}
            if before!=after: bad+=1; print("REBUILD")
print("seed",seed,"checks",n,"bad",bad)
