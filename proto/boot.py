import sys, types, os
shadow = os.environ['ZI_SHADOW']
z = sys.modules.get('zope') or types.ModuleType('zope')
z.__path__ = [os.path.join(shadow, 'zope'), '/venv/lib/python3.12/site-packages/zope']
sys.modules['zope'] = z
