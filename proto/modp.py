from zope.interface import Interface, implementer, implementer_only
class IP(Interface): pass
class IQ(Interface): pass
@implementer(IP)
class Base: pass
@implementer_only(IQ)
class Only(Base): pass
