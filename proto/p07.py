import random, sys
from zope.interface import Interface, implementedBy, providedBy, classImplements
from zope.interface.interface import InterfaceClass
from zope.interface.adapter import AdapterRegistry, VerifyingAdapterRegistry
from p04 import dag, c3, RUN
class Eq:
    def __init__(s,k,i): s.k=k; s.i=i
    def __eq__(s,o): return isinstance(o,Eq) and s.k==o.k
    def __hash__(s): return hash(s.k)
    def __repr__(s): return 'Eq(%s,%s)'%(s.k,s.i)
seed=int(sys.argv[1]); rng=random.Random(seed); bad=0; checks=0; pairs=0
for it in range(int(sys.argv[2])):
    RUN[0]+=1
    R=dag(rng,'R',rng.randint(2,6)); P=dag(rng,'P',rng.randint(1,4))
    Reg=rng.choice([AdapterRegistry,VerifyingAdapterRegistry])
    regs=[]
    for i in range(rng.randint(1,3)):
        bases=tuple(rng.sample(regs,min(len(regs),rng.choice([0,1,1,2]))))
        try:
            c3(type('x',(),{'__bases__':bases})(), lambda r:r.__bases__, {}); regs.append(Reg(bases))
        except ValueError: pass
    ledger={r:[] for r in regs}   # list of (req,prov,value) in order
    ctr=0
    for j in range(rng.randint(3,30)):
        reg=rng.choice(regs); ar=rng.choice([0,1,1,2,2])
        req=tuple(rng.choice(R+[None]) for _ in range(ar)); prov=rng.choice(P+[None])
        nreq=tuple(Interface if r is None else r for r in req)
        if rng.random()<0.7 or not ledger[reg]:
            ctr+=1; v=Eq(rng.randint(0,3),ctr)
            reg.subscribe(req,prov,v); ledger[reg].append((nreq,prov,v))
        else:
            k=rng.choice(ledger[reg])
            if rng.random()<0.5:
                reg.unsubscribe(k[0],k[1],k[2]); ledger[reg]=[e for e in ledger[reg] if not (e[0]==k[0] and e[1] is k[1] and e[2]==k[2])]
            else:
                reg.unsubscribe(k[0],k[1]); ledger[reg]=[e for e in ledger[reg] if not (e[0]==k[0] and e[1] is k[1])]
        for q in range(rng.randint(0,3)):
            lr=rng.choice(regs); ar=rng.choice([0,1,1,2,2])
            lreq=tuple(rng.choice(R) for _ in range(ar)); lprov=rng.choice(P+[None,Interface])
            got=lr.subscriptions(lreq,lprov); checks+=1
            ro=c3(lr,lambda r:r.__bases__,{})
            exp=[]
            for ri,reg2 in enumerate(ro):
                for n,(kreq,kprov,v) in enumerate(ledger[reg2]):
                    if len(kreq)!=len(lreq): continue
                    if lprov is None:
                        if kprov is not None: continue
                    else:
                        if kprov is None or not kprov.isOrExtends(lprov): continue
                    pos=[]
                    for kr,r in zip(kreq,lreq):
                        sro=list(r.__sro__)
                        if kr not in sro: pos=None;break
                        pos.append(sro.index(kr))
                    if pos is None: continue
                    exp.append((ri,tuple(pos),kreq,kprov,n,v))
            if sorted(map(id,got))!=sorted(id(e[-1]) for e in exp):
                bad+=1; print("MULTISET",got,[e[-1] for e in exp]); continue
            # order constraints
            byid={}
            for e in exp: byid.setdefault(id(e[-1]),[]).append(e)
            seq=[byid[id(g)][0] for g in got]
            for a in range(len(seq)):
                for b in range(a+1,len(seq)):
                    x,y=seq[a],seq[b]; pairs+=1
                    # x before y. violation if y must precede x
                    if y[0]>x[0]: bad+=1; print("REGORDER")
                    elif y[0]==x[0]:
                        if y[1]!=x[1] and all(py>=px for py,px in zip(y[1],x[1])): bad+=1; print("KEYORDER",x[1],y[1])
                        elif y[2]==x[2] and y[3] is x[3] and y[4]<x[4]: bad+=1; print("FIFO")
print("seed",seed,"checks",checks,"pairs",pairs,"bad",bad)
