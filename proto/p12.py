import itertools, operator, sys
from zope.interface import Interface, implementedBy
from zope.interface.interface import InterfaceClass
names=['', 'A', 'AB', 'a', 'é', 'B']
mods=['', 'm', 'mm', 'n', 'ü']
ifs=[InterfaceClass(n,(Interface,),{},__module__=m) for n in names for m in mods]
ifs+= [InterfaceClass('A',(Interface,),{},__module__='m')]  # equal twin
def mk(name, mod):
    c=type(name,(),{}); c.__module__=mod; return c
cls=[mk('A','m'), mk('A','m'), mk('Z','m'), mk('','')]
specs=[implementedBy(c) for c in cls]
class F: pass
class G: __name__='A'; 
g=G(); g.__module__='m'
ops=[operator.lt,operator.le,operator.gt,operator.ge,operator.eq,operator.ne]
key=lambda x:(x.__name__,x.__module__)
bad=0;n=0
allx=ifs+specs
for a in allx:
    for b in allx:
        for op in ops:
            n+=1
            exp=op(key(a),key(b))
            if op in (operator.eq,operator.ne) and (a in specs or b in specs):
                if a in specs and b in specs:
                    exp = (a is b) if op is operator.eq else (a is not b)
                else:
                    continue  # mixed eq: check separately
            got=op(a,b)
            if got!=exp:
                bad+=1
                if bad<8: print("BAD",op.__name__,key(a),type(a).__name__,key(b),type(b).__name__,got,exp)
        if isinstance(a,InterfaceClass) and isinstance(b,InterfaceClass) and a==b and hash(a)!=hash(b): bad+=1; print("HASH")
for a in ifs:
    assert (a<None) and (a<=None) and not (a>None) and not (a>=None) and a!=None and not (a==None), a
    assert (None>a) and (None>=a) and not (None<a) and not (None<=a)
    for f in (F(), 3, 'x'):
        assert (a==f) is False and (a!=f) is True
        for op in ops[:4]:
            try: op(a,f); print("no TypeError", op, f)
            except TypeError: pass
    print(end='')
print("mixed eq iface/spec samekey:", ifs[6]==specs[0], specs[0]==ifs[6], key(ifs[6]), key(specs[0]))
print("g compare:", [op(ifs[6], g) for op in ops], key(ifs[6]))
print("pairs*ops",n,"bad",bad)
s=sorted(allx+[None]); print([key(x) if x is not None else None for x in s][:6], s[-1])
