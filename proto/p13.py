import pickle, modq
from zope.interface import implementedBy, providedBy, directlyProvides, alsoProvides
def rt(x, p): return pickle.loads(pickle.dumps(x, p))
for p in range(0, 6):
    out=[]
    for I in (modq.IP, modq.IQ): out.append(rt(I,p) is I)
    for c in (modq.Base, modq.Sub, modq.Only, modq.Prov):
        s=implementedBy(c); out.append(rt(s,p) is s)
    cp = modq.Prov.__provides__; u = rt(cp,p); out.append(('CP', u is cp, u == cp, list(u)==list(cp), hash(u)==hash(cp)))
    o = modq.Inst(); directlyProvides(o, modq.IR); pr = o.__provides__; u = rt(pr,p); out.append(('P', u is pr, list(u)==list(pr)))
    o2 = rt(o,p); out.append(('obj', o2.__provides__ is pr, list(providedBy(o2))==list(providedBy(o))))
    d = pickle.dumps(modq.IP, p); out.append(b'meth_unique' in d or b'doc_unique' in d)
    print(p, out)
