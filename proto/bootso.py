import sys, os, importlib.machinery, importlib.util, importlib.abc
SO = os.environ.get('ZI_SO')
class F(importlib.abc.MetaPathFinder):
    def find_spec(self, name, path, target=None):
        if name == 'zope.interface._zope_interface_coptimizations' and SO:
            loader = importlib.machinery.ExtensionFileLoader(name, SO)
            return importlib.util.spec_from_file_location(name, SO, loader=loader)
if SO: sys.meta_path.insert(0, F())
