"""Texts for MANIFEST.json (kept apart from the plans so the plans stay code)."""
NOT_APPLICABLE = {}
NOTES = ('Runtime monitoring only: every verdict is an oracle observing executions of the real code in /repo '
         '(Python sources from the working tree, C accelerator rebuilt by the check).  exit 0 = held on what was '
         'explored, 1 = VIOLATION, 2 = INCONCLUSIVE (deciding monitor not reached).  Known findings: known_findings.json.')
ENGINE_KIND = {
    'decl': 'history + executable must/may reference model, every live object compared after every step',
    'algebra': 'law checker over generated declaration operands',
    'specgraph': 'history monitor: reachability oracle, fresh-twin differential, two independent C3 oracles',
    'attrs': 'accessor-agreement monitor after every rebasing',
    'registry': 'history + reference model / ledger monitors, warm-vs-cold replay differential, ro invariant at quiescent points',
    'order': 'law checker + cross-process determinism',
    'pickling': 'round-trip monitor incl. second process and opcode inspection',
    'adapt': 'trace-specification monitor over recorded call logs (exhaustive case product)',
    'components': 'history + ledger model + event recorder + fresh-registry differential',
    'signature': 'exhaustive-grid runtime oracle (inspect.signature)',
    'diff': 'differential trace monitor py vs C in separate processes, sanitizer legs',
    'reent': 'callback-point fault injection, cache-ownership audit, answer oracle, leak meters, thread stress, valgrind/ASan',
}
META = {
    'C01': dict(
        technique='runtime monitoring: random declaration histories vs executable must/may reference model, all live objects re-queried after every step, py and C implementations',
        design_ref='3.1',
        text='Held on the recorded executions: seeded hostile histories (hundreds of thousands of oracle comparisons per run) '
             'over class and interface DAGs; every live class/instance is compared with the reference model after every step, '
             'so frame violations on unrelated objects are observed too.  Says nothing about histories the generator cannot produce.',
        note='Trusted: the 60-line must/may model; redundancy of a declaration is read from implementedBy() answers that the monitor '
             'has just validated against its own bounds.'),
    'C19': dict(
        technique='runtime monitoring: super-proxy queries along every MRO vs must/may reference model restricted to the MRO tail, recording adapter factories',
        design_ref='3.19',
        text='Held on the recorded executions: every (C, ob) pair along every MRO of generated class DAGs is queried before and '
             'after declaration changes (warm per-class proxy cache); adaptation through a real AdapterRegistry with recording factories.',
        note='Trusted: C01 reference model; adapter choice read from the validated proxy specification order.'),
}


def _m(technique, design_ref, text, note):
    return dict(technique=technique, design_ref=design_ref, text=text, note=note)


META.update({
    'C02': _m('runtime monitoring: rebasing histories vs DFS reachability oracle over current __bases__ + fresh-twin graph differential, py and C, strict and non-strict',
              '3.2', 'Held on the recorded executions: every ordered pair of live specifications (interfaces, plain/class/instance declarations) is '
              'compared with reachability after every mutation; every __sro__ is compared element-wise with a freshly built twin graph.',
              'Trusted: DFS over __bases__; generated graphs are acyclic.'),
    'C03': _m('runtime monitoring: resolution orders of generated DAGs vs two independent C3 oracles (own merge, CPython type.mro() of a mirrored class graph), five ro configurations',
              '3.3', 'Held on the recorded executions: validity of every order, equality with C3 when it exists, strict / is_consistent verdicts, '
              'for consistent and inconsistent hierarchies and after rebasing, in default/strict/legacy/warn/track configurations.',
              'Trusted: CPython implements C3; the two oracles must agree or the node is not judged.  Known finding strict_transient_raise is reported, not hidden.'),
    'C04': _m('runtime monitoring: recorded lookups vs lexicographic-position reference model over real __sro__',
              '3.4', 'Held on the recorded executions: tens of thousands of lookups on populated registry chains of both flavours, biased to ties.',
              'Trusted: the 40-line model; __sro__ as validated by C02/C03.'),
    'C05': _m('runtime monitoring: warm registry vs cold replay of the full mutation log at every step, all entry points x all mutation kinds, cache hits confirmed by counting uncached computations',
              '3.5', 'Held on the recorded executions: literal reading of the statement - a registry that never looked anything up is built by replay and asked the same questions.',
              'Trusted: replaying the mutation log reproduces the mutation state; model second opinion for plain lookups.'),
    'C06': _m('runtime monitoring: invariant at quiescent points (registry.ro == C3 of current __bases__) + behavioural probes from every chain member vs reference model',
              '3.6', 'Held on the recorded executions: registry DAGs of both flavours and Components chains, re-based at any level, probed from every member.',
              'Trusted: own C3 over the registry graph; C04/C07 models.'),
    'C07': _m('runtime monitoring: subscribe/unsubscribe histories vs ledger (multiset by identity) + pairwise order rules',
              '3.7', 'Held on the recorded executions.', 'Order is only constrained where the statement constrains it (comparable keys).'),
    'C08': _m('runtime monitoring: cross-entry-point agreement under varied cache warm-up, recording factories',
              '3.8', 'Held on the recorded executions: nine entry points per key in seeded orders (cold / warm-by-self / warm-by-other).',
              'The registry\'s own lookup()/subscriptions() are the reference; they are decided by C04/C07.'),
    'C09': _m('runtime monitoring: bookkeeping ledger after every step + replayed-twin and rebuild() differentials',
              '3.9', 'Held on the recorded executions.', 'Differentials only on unambiguous probes (unique minimal candidate).'),
    'C12': _m('runtime monitoring: comparison/hash laws on generated operand pools + cross-process (py/C x hash seeds) determinism of sorted()',
              '3.12', 'Held on the recorded executions: all ordered pairs x 6 operators, sampled triples, sorted collections compared across 4-12 processes.',
              'Trusted: tuple comparison of (__name__, __module__).'),
    'C13': _m('runtime monitoring: pickle round trips of generated importable modules, protocols 0-5, second process, opcode/sentinel inspection',
              '3.13', 'Held on the recorded executions.', 'Trusted: pickle/pickletools.'),
    'C15': _m('runtime monitoring: accessor agreement vs first-definition-along-__iro__ from the harness\'s own record, cold/warm/after rebasing',
              '3.15', 'Held on the recorded executions.', '__iro__ itself is decided by C02/C03.'),
    'C20': _m('runtime monitoring: declaration algebra laws vs list algebra over DFS reachability',
              '3.20', 'Held on the recorded executions: all ordered pairs of generated declarations per world.',
              'A+B: placement of a new element that extends only an earlier new element is not constrained.'),
    'C14': _m('runtime monitoring: trace-specification monitor - recorded call log and outcome of I(obj[, alt]) vs a 12-line reference, complete case product',
              '3.14', 'Held on the enumerated product (27k-170k cases per implementation): precedence automaton over the recorded call log, result/exception identity.',
              'Trusted: the reference function of the adaptation order.'),
    'C16': _m('runtime monitoring: Components histories vs listing ledger, event recorder on registry.notify, fresh-registry differential after every call',
              '3.16', 'Held on the recorded executions.', 'Events: documented per-call semantics and strict per-registration reading both accepted where they differ.'),
    'C17': _m('runtime monitoring: exhaustive signature-pair grid, admitted call shapes bound with inspect.signature(impl).bind; multi-error cases',
              '3.17', 'Held on the complete 48x48 signature grid in three implementation forms plus random multi-error cases.',
              'Trusted: inspect.signature; kw-only/positional-only parameters belong to C18.'),
    'C18': _m('runtime monitoring: exhaustive grid of generated def statements through six description routes vs inspect.signature',
              '3.18', 'Held on the complete 756-function grid x 6 routes and the shipped ABC interfaces.', 'Trusted: inspect.signature.'),
    'C11': _m('runtime monitoring + sanitizers: enumerated callback-point x action x entry-point fault injection with answer oracle and cache-ownership audit; leak meters; thread stress with generation-stamped values and quiescence oracle; mutation-window (incl. rebuild() and a lookup thread scheduled inside it) and subscription races with sys.monitoring yield injection; valgrind memcheck (deciding for freed-memory access) and ASan/UBSan on the rebuilt extension',
              '3.11', 'Held on the enumerated fault product (20 callback points x 16 actions x 10 entry points x 2 flavours x hit/miss, about 6600 reached cells per run and implementation, every callback point with its own floor) and on the recorded thread schedules; '
              'valgrind memcheck reports no error on the scripted cases run with the dict-free-list flood.  Says nothing about callback points the product does not contain or schedules the GIL did not produce.',
              'Trusted: valgrind memcheck with PYTHONMALLOC=malloc; cold-replay answers as the before/after reference; refcount ownership rule of the audit.'),
    'C10': _m('runtime monitoring: differential trace monitor - the same seeded API program under PURE_PYTHON=1 and with the rebuilt C accelerator in separate processes, canonical traces compared step by step (the recorded divergences are exercised by the last steps of every program, each compared on its own); ASan/UBSan and valgrind on the C side (thorough)',
              '3.10', 'Held on the recorded programs (thousands of steps per run, error-path grammar included); the first differing step is the witness.',
              'Trusted: canonical rendering (types of exceptions, not messages); gc.collect() before operations that consult the weak instance-declaration cache.'),
})
