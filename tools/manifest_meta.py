"""Texts for MANIFEST.json (kept apart from the plans so the plans stay code)."""
NOT_APPLICABLE = {}
NOTES = ('Runtime monitoring only: every verdict is an oracle observing executions of the real code in /repo '
         '(Python sources from the working tree, C accelerator rebuilt by the check).  exit 0 = held on what was '
         'explored, 1 = VIOLATION, 2 = INCONCLUSIVE (deciding monitor not reached).  Known findings: known_findings.json.')
ENGINE_KIND = {
    'decl': 'history + executable must/may reference model, every live object compared after every step',
}
META = {
    'C01': dict(
        technique='runtime monitoring: random declaration histories vs executable must/may reference model, all live objects re-queried after every step, py and C implementations',
        design_ref='3.1',
        text='Held on the recorded executions: seeded hostile histories (hundreds of thousands of oracle comparisons per run) '
             'over class and interface DAGs; every live class/instance is compared with the reference model after every step, '
             'so frame violations on unrelated objects are observed too.  Says nothing about histories the generator cannot produce.',
        note='Trusted: the 60-line must/may model; redundancy of a declaration is read from implementedBy() answers that the monitor '
             'has just validated against its own bounds.'),
    'C19': dict(
        technique='runtime monitoring: super-proxy queries along every MRO vs must/may reference model restricted to the MRO tail, recording adapter factories',
        design_ref='3.19',
        text='Held on the recorded executions: every (C, ob) pair along every MRO of generated class DAGs is queried before and '
             'after declaration changes (warm per-class proxy cache); adaptation through a real AdapterRegistry with recording factories.',
        note='Trusted: C01 reference model; adapter choice read from the validated proxy specification order.'),
}
