#!/usr/bin/env python3
"""Run the repository's pinned test command (guard off) and compare with
/root/.vp/BASELINE.json: every stable_pass test must still pass.
usage: tools/baseline.py [repo_dir]     exit 0 iff all stable passes pass."""
import json
import os
import subprocess
import sys
import tempfile
import xml.etree.ElementTree as ET

repo = sys.argv[1] if len(sys.argv) > 1 else '/repo'
base = json.load(open('/root/.vp/BASELINE.json'))
fd, xml = tempfile.mkstemp(suffix='.xml')
os.close(fd)
env = dict(os.environ)
for k in list(env):
    if k.startswith('ZOPE_INTERFACE_') or k in ('PURE_PYTHON', 'ZI_SO', 'VERIF_REPO'):
        env.pop(k)
cmd = ['/venv/bin/python', '-m', 'pytest', '-ra', '-q', '-p', 'no:cacheprovider', '--timeout=900',
       '--continue-on-collection-errors', '--junitxml=' + xml]
if os.path.realpath(repo) != '/repo':
    # the C accelerator has to be built there as well (git worktrees come without the .so)
    b = subprocess.run(['/venv/bin/python', 'setup.py', '-q', 'build_ext', '--inplace'], cwd=repo, env=env,
                       capture_output=True, text=True)
    if b.returncode != 0:
        print('extension build failed:', b.stderr[-1500:])
        sys.exit(2)
    # another tree (scratch worktree of a seeded change): import zope.interface from there
    cmd = ['/venv/bin/python', os.path.join(os.path.dirname(os.path.abspath(__file__)), 'pyrun.py'), repo] + cmd[1:]
p = subprocess.run(cmd, cwd=repo, env=env, capture_output=True, text=True)
passed = set()
for tc in ET.parse(xml).getroot().iter('testcase'):
    if not any(c.tag in ('failure', 'error', 'skipped') for c in tc):
        passed.add('%s::%s' % (tc.get('classname'), tc.get('name')))
os.unlink(xml)
missing = [t for t in base['stable_pass'] if t not in passed]
print('stable_pass expected %d, passing now %d, missing %d' % (len(base['stable_pass']), len(base['stable_pass']) - len(missing), len(missing)))
for t in missing[:20]:
    print('  NOT PASSING:', t)
sys.exit(1 if missing else 0)
