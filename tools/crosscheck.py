#!/usr/bin/env python3
"""Run given checks against one seeded change and merge the outcome into its meta.json.
usage: tools/crosscheck.py NAME PROP[:tier] [PROP[:tier] ...]"""
import json
import os
import subprocess
import sys
import tempfile
import time

VERIF = os.path.dirname(os.path.dirname(os.path.abspath(__file__)))
name, props = sys.argv[1], sys.argv[2:]
d = os.path.join(VERIF, 'seeded', name)
meta = json.load(open(os.path.join(d, 'meta.json')))
wt = tempfile.mkdtemp(prefix='zcross-')
os.rmdir(wt)
subprocess.run(['git', '-C', '/repo', 'worktree', 'add', '-q', '--detach', wt, 'HEAD'], check=True)
try:
    subprocess.run(['git', '-C', wt, 'apply', os.path.join(d, 'patch.diff')], check=True)
    for pt in props:
        prop, _, tier = pt.partition(':')
        tier = tier or 'quick'
        t0 = time.time()
        p = subprocess.run(['/venv/bin/python', '-m', 'zmon.check', prop, '--tier', tier, '--no-evidence'], cwd=VERIF,
                           env=dict(os.environ, VERIF_REPO=wt), capture_output=True, text=True)
        lines = p.stdout.splitlines()
        viol = [l for l in lines if l.startswith('VIOLATION')]
        kinds = sorted({l.split('kind=')[1].split()[0] for l in lines if l.strip().startswith('kind=')})
        meta.setdefault('checks', {})['%s:%s' % (prop, tier)] = {'rc': p.returncode, 'violations': len(viol), 'kinds': kinds,
                                                                'wall_s': round(time.time() - t0, 1), 'inconclusive': []}
        print(name, prop, tier, 'violations=%d' % len(viol), kinds[:3], flush=True)
    meta['caught_by'] = sorted(k for k, v in meta['checks'].items() if v['violations'] > 0)
    json.dump(meta, open(os.path.join(d, 'meta.json'), 'w'), indent=1)
finally:
    subprocess.run(['git', '-C', '/repo', 'worktree', 'remove', '--force', wt])
    subprocess.run(['git', '-C', '/repo', 'worktree', 'prune'])
