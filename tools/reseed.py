#!/usr/bin/env python3
"""Re-validate seeded changes kept under seeded/<NAME>/ against the current checks.

usage: tools/reseed.py [--all] [--thorough] [--own-only] [NAME...]      (no NAME = every directory under seeded/)

For each NAME: copies patch.diff and demo.py to a temporary directory (outside /repo and /verif), runs
tools/seedtest.py on them (scratch worktree of /repo, removed afterwards) and rewrites seeded/NAME/meta.json,
keeping the author's `needs_to_manifest` text.  Never deletes a seeded directory."""
import json
import os
import shutil
import subprocess
import sys
import tempfile

VERIF = os.path.dirname(os.path.dirname(os.path.abspath(__file__)))


def main():
    args = sys.argv[1:]
    flags = [a for a in args if a.startswith('--')]
    names = [a for a in args if not a.startswith('--')]
    if not names:
        names = sorted(os.listdir(os.path.join(VERIF, 'seeded')))
    for n in names:
        d = os.path.join(VERIF, 'seeded', n)
        old = json.load(open(os.path.join(d, 'meta.json')))
        tmp = tempfile.mkdtemp(prefix='zreseed-')
        try:
            shutil.copy(os.path.join(d, 'patch.diff'), tmp)
            shutil.copy(os.path.join(d, 'demo.py'), tmp)
            keep = os.path.join(tmp, 'keep')
            cmd = ['python3', os.path.join(VERIF, 'tools', 'seedtest.py'), os.path.join(tmp, 'patch.diff'),
                   os.path.join(tmp, 'demo.py'), old['property'], '--name', n, '--keep', keep,
                   '--needs', old.get('needs_to_manifest', '')]
            if '--all' in flags:
                cmd.append('--all')
            if '--thorough' in flags:
                cmd.append('--thorough')
            p = subprocess.run(cmd, capture_output=True, text=True, cwd=VERIF)
            mf = os.path.join(keep, 'meta.json')
            if os.path.exists(mf):
                new = json.load(open(mf))
                if '--all' not in flags and old.get('checks'):
                    # keep the older results of the other properties' checks, marked as such
                    merged = dict(old['checks'])
                    merged.update(new['checks'])
                    new['checks'] = merged
                    new['caught_by'] = sorted(k for k, v in merged.items() if v['violations'] > 0)
                with open(os.path.join(d, 'meta.json'), 'w') as f:
                    json.dump(new, f, indent=1)
                print(n, 'confirmed' if new.get('confirmed') else 'NOT-CONFIRMED', 'caught_by=', new.get('caught_by'),
                      flush=True)
            else:
                print(n, 'ERROR', (p.stdout + p.stderr)[-600:], flush=True)
        finally:
            shutil.rmtree(tmp, True)


if __name__ == '__main__':
    main()
