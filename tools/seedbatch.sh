#!/bin/bash
# usage: tools/seedbatch.sh ID...   (reads /tmp/mut/<ID>/out/{A,B}.diff, keeps confirmed ones in seeded/)
cd /verif
for id in "$@"; do
  for x in A B; do
    if [ -f /tmp/mut/$id/out/$x.diff ]; then
      needs=$(python3 - <<PY
import re
try:
    t=open('/tmp/mut/$id/out/notes.md').read()
    print(' '.join(t.split())[:1500])
except Exception: print('')
PY
)
      python3 tools/seedtest.py /tmp/mut/$id/out/$x.diff /tmp/mut/$id/out/demo_$x.py $id --name "$id-$x" --all --thorough --keep seeded/$id-$x --needs "$needs" > /tmp/mut/$id/out/seedtest_$x.json 2>&1
      python3 - <<PY
import json
try:
    d=json.load(open('/tmp/mut/$id/out/seedtest_$x.json'))
    print('$id-$x', 'confirmed' if d.get('confirmed') else 'NOT-CONFIRMED', 'caught_by=', d.get('caught_by'))
except Exception as e:
    print('$id-$x', 'ERROR', open('/tmp/mut/$id/out/seedtest_$x.json').read()[-400:])
PY
    fi
  done
done
