#!/bin/bash
# usage: tools/seedbatch.sh ID...
# Reads /tmp/mut/<ID>/out/{A,B}.diff (+ demo_X.py, notes.md), validates each seeded change and runs the checks
# against it FROM A SNAPSHOT of /verif (so that edits made meanwhile do not disturb the run); confirmed ones are
# kept under /verif/seeded/<ID>-<X>/.
snap=$(mktemp -d /tmp/zsnap.XXXXXX)
rsync -a --exclude .git --exclude replays --exclude __pycache__ /verif/ $snap/
mkdir -p $snap/replays
cd $snap
for id in "$@"; do
  for x in A B; do
    if [ -f /tmp/mut/$id/out/$x.diff ]; then
      needs=$(python3 -c "
try:
    t=open('/tmp/mut/$id/out/notes.md').read()
    print(' '.join(t.split())[:1800])
except Exception: print('')
")
      python3 tools/seedtest.py /tmp/mut/$id/out/$x.diff /tmp/mut/$id/out/demo_$x.py $id --name "$id-$x" --all --thorough --keep /verif/seeded/$id-$x --needs "$needs" > /tmp/mut/$id/out/seedtest_$x.json 2>&1
      python3 -c "
import json
try:
    d=json.load(open('/tmp/mut/$id/out/seedtest_$x.json'))
    print('$id-$x', 'confirmed' if d.get('confirmed') else 'NOT-CONFIRMED', 'caught_by=', d.get('caught_by'))
except Exception as e:
    print('$id-$x', 'ERROR', open('/tmp/mut/$id/out/seedtest_$x.json').read()[-400:])
"
    fi
  done
done
rm -rf $snap
