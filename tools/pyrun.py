#!/usr/bin/env python3
"""Run a module or script with ``zope.interface`` imported from another source tree.

usage: /venv/bin/python tools/pyrun.py <tree> -m <module> [args...]
       /venv/bin/python tools/pyrun.py <tree> <script.py> [args...]

The venv has an editable install of /repo whose nspkg .pth pins ``zope.__path__``
to /repo/src/zope; this wrapper re-points it at <tree>/src/zope first."""
import os
import runpy
import sys
import types

tree = os.path.abspath(sys.argv[1])
z = sys.modules.get('zope')
if z is None:
    z = types.ModuleType('zope')
    sys.modules['zope'] = z
paths = [os.path.join(tree, 'src', 'zope')]
for p in sys.path:
    cand = os.path.join(p, 'zope')
    if 'site-packages' in p and os.path.isdir(cand):
        paths.append(cand)
z.__path__ = paths
for k in [k for k in sys.modules if k.startswith('zope.')]:
    del sys.modules[k]
sys.path.insert(0, os.path.join(tree, 'src'))
args = sys.argv[2:]
if args and args[0] == '-m':
    sys.argv = args[1:]
    runpy.run_module(args[1], run_name='__main__', alter_sys=True)
else:
    sys.argv = args
    runpy.run_path(args[0], run_name='__main__')
