#!/bin/bash
# usage: tools/trymut.sh <patch.diff> <PROP> [tier]   -- run one check against a scratch worktree with the patch applied
set -e
wt=$(mktemp -d /tmp/ztry.XXXXXX); rmdir $wt
git -C /repo worktree add -q --detach $wt HEAD
trap "git -C /repo worktree remove --force $wt; git -C /repo worktree prune" EXIT
git -C $wt apply "$1"
cd /verif && VERIF_REPO=$wt /venv/bin/python -m zmon.check "$2" --tier "${3:-quick}" --no-evidence | cut -c1-600 | head -12
