#!/usr/bin/env python3
"""Regenerate the seeded-change table in DESIGN.md from seeded/*/meta.json."""
import glob
import json
import os
import re

VERIF = os.path.dirname(os.path.dirname(os.path.abspath(__file__)))
rows = []
for f in sorted(glob.glob(os.path.join(VERIF, 'seeded', '*', 'meta.json'))):
    m = json.load(open(f))
    name = os.path.basename(os.path.dirname(f))
    prop = m['property']
    caught = m.get('caught_by', [])
    own = [c.split(':')[1] for c in caught if c.startswith(prop + ':')]
    others = sorted({c.split(':')[0] for c in caught if not c.startswith(prop + ':')})
    needs = ' '.join((m.get('needs_to_manifest') or '').split())
    mm = re.match(r"\[round (\d), author's change ([ABC])\] ", needs)
    letter, rnd = (mm.group(2), mm.group(1)) if mm else (name[-1], '1')
    seg = re.search(r'## (?:Change )?%s\b(.*?)(?=## (?:Change )?[A-D]\b|$)' % letter, needs)
    what = seg.group(1).strip(' -—:') if seg and len(seg.group(1)) > 40 else ''
    if not what:
        # fall back to what the patch touches
        files, funcs = [], []
        for line in open(os.path.join(os.path.dirname(f), 'patch.diff')):
            if line.startswith('+++ b/'):
                files.append(os.path.basename(line[6:].strip()))
            elif line.startswith('@@'):
                ctxt = line.split('@@')[-1].strip()
                if ctxt and ctxt not in funcs:
                    funcs.append(ctxt)
        what = 'patch touches %s: %s' % (', '.join(files), '; '.join(funcs)[:200])
    what = ''.join(ch if ch >= ' ' else '?' for ch in what)          # (authors' notes may quote control characters)
    what = 'r%s: ' % rnd + what[:330] + ('…' if len(what) > 330 else '')
    rows.append('| %s | %s | %s | %s | %s |' % (name, 'yes' if m.get('confirmed') else 'NO', own[0] if own else '**missed**',
                                             ', '.join(others) or '–', what.replace('|', '/')))
table = '\n'.join(['| seeded change | confirmed | own check | also reported by | what it is / needs (from the author\'s notes) |',
                   '|---|---|---|---|---|'] + rows)
p = os.path.join(VERIF, 'DESIGN.md')
s = open(p).read()
s = re.sub(r'<!-- SEEDED-TABLE-BEGIN -->.*?<!-- SEEDED-TABLE-END -->',
           lambda m_: '<!-- SEEDED-TABLE-BEGIN -->\n' + table + '\n<!-- SEEDED-TABLE-END -->', s, flags=re.S)   # (no escape processing)
open(p, 'w').write(s)
print(len(rows), 'rows')
