#!/usr/bin/env python3
"""Regenerate the seeded-change table in DESIGN.md from seeded/*/meta.json."""
import glob
import json
import os
import re

VERIF = os.path.dirname(os.path.dirname(os.path.abspath(__file__)))
rows = []
for f in sorted(glob.glob(os.path.join(VERIF, 'seeded', '*', 'meta.json'))):
    m = json.load(open(f))
    name = os.path.basename(os.path.dirname(f))
    prop = m['property']
    caught = m.get('caught_by', [])
    own = [c.split(':')[1] for c in caught if c.startswith(prop + ':')]
    others = sorted({c.split(':')[0] for c in caught if not c.startswith(prop + ':')})
    needs = ' '.join((m.get('needs_to_manifest') or '').split())
    what = needs[:260] + ('…' if len(needs) > 260 else '')
    rows.append('| %s | %s | %s | %s | %s |' % (name, 'yes' if m.get('confirmed') else 'NO', own[0] if own else '**missed**',
                                             ', '.join(others) or '–', what.replace('|', '/')))
table = '\n'.join(['| seeded change | confirmed | own check | also reported by | what it is / needs (from the author\'s notes) |',
                   '|---|---|---|---|---|'] + rows)
p = os.path.join(VERIF, 'DESIGN.md')
s = open(p).read()
s = re.sub(r'<!-- SEEDED-TABLE-BEGIN -->.*?<!-- SEEDED-TABLE-END -->',
           '<!-- SEEDED-TABLE-BEGIN -->\n' + table + '\n<!-- SEEDED-TABLE-END -->', s, flags=re.S)
open(p, 'w').write(s)
print(len(rows), 'rows')
