#!/usr/bin/env python3
"""Measure which lines of the C accelerator the c legs of the checks reach (gcov).
usage: tools/ccov.py [quick|thorough] ID...      prints per-function unreached lines; exit 0 always (a measuring tool)"""
import os
import re
import shutil
import subprocess
import sys
import tempfile

VERIF = os.path.dirname(os.path.dirname(os.path.abspath(__file__)))
tier = sys.argv[1]
ids = sys.argv[2:]
cov = tempfile.mkdtemp(prefix='zcov-')
try:
    env = dict(os.environ, ZMON_COV_DIR=cov)
    for pid in ids:
        p = subprocess.run(['/venv/bin/python', '-m', 'zmon.check', pid, '--tier', tier, '--no-evidence'], cwd=VERIF,
                           env=env, capture_output=True, text=True)
        print(pid, 'rc=%d' % p.returncode, p.stdout.splitlines()[0] if p.stdout else p.stderr[-300:], flush=True)
    repo = os.environ.get('VERIF_REPO', '/repo')
    src = os.path.join(repo, 'src', 'zope', 'interface', '_zope_interface_coptimizations.c')
    subprocess.run(['gcov', '-o', cov, os.path.join(cov, 'zi.o')], cwd=cov, capture_output=True, text=True)
    gc = os.path.join(cov, '_zope_interface_coptimizations.c.gcov')
    func = None
    miss, tot = {}, {}
    fre = re.compile(r'^([A-Za-z_][A-Za-z0-9_]*)\(')
    for line in open(gc, errors='replace'):
        m = re.match(r'\s*([^:]+):\s*(\d+):(.*)$', line)
        if not m:
            continue
        cnt, no, text = m.group(1).strip(), int(m.group(2)), m.group(3)
        fm = fre.match(text)
        if fm:
            func = fm.group(1)
        if cnt == '-':
            continue
        tot[func] = tot.get(func, 0) + 1
        if cnt in ('#####', '====='):
            miss.setdefault(func, []).append((no, text.strip()[:90]))
    t = sum(tot.values())
    m_ = sum(len(v) for v in miss.values())
    print('C lines executable=%d reached=%d (%.1f%%)' % (t, t - m_, 100.0 * (t - m_) / max(t, 1)))
    for f in sorted(miss, key=lambda f: -len(miss[f])):
        print('%s: %d/%d unreached' % (f, len(miss[f]), tot[f]))
        for no, text in miss[f]:
            print('   %5d %s' % (no, text))
finally:
    shutil.rmtree(cov, True)
