#!/usr/bin/env python3
"""Regenerate MANIFEST.json from zmon/plans.py + tools/manifest_meta.py."""
import json
import os
import sys

HERE = os.path.dirname(os.path.abspath(__file__))
VERIF = os.path.dirname(HERE)
sys.path.insert(0, VERIF)
sys.path.insert(0, HERE)
from zmon import plans  # noqa
import manifest_meta as mm  # noqa

props = [json.loads(l)['id'] for l in open(os.path.join(VERIF, 'properties.jsonl'))]
checks = []
for pid in props:
    if pid not in plans.PLANS or pid in mm.NOT_APPLICABLE:
        continue
    p = plans.PLANS[pid]
    m = mm.META[pid]
    checks.append({
        'property_id': pid,
        'quick_cmd': '/venv/bin/python -m zmon.check %s --tier quick' % pid,
        'thorough_cmd': '/venv/bin/python -m zmon.check %s --tier thorough' % pid,
        'evidence_file': '/verif/evidence/%s.json' % pid,
        'replay_cmd_template': '/venv/bin/python -m zmon.check %s --replay {path}' % pid,
        'engine': p['engine'],
        'level_claimed': {'category': p['level'], 'text': m['text'], 'design_ref': m['design_ref']},
        'level_note': m['note'],
        'technique': m['technique'],
    })
engines = {}
for pid in props:
    if pid in plans.PLANS and pid not in mm.NOT_APPLICABLE:
        engines.setdefault(plans.PLANS[pid]['engine'], []).append(pid)
man = {
    'version': 1,
    'setup_cmd': '/venv/bin/python -m zmon.check --selfcheck',
    'hooks': {
        'guard': 'ZOPE_INTERFACE_VERIF',
        'enable': 'no source hooks are needed: every observation point is reached from outside through overridable methods, hostile objects and gc.get_referents (DESIGN 2.4)',
        'baseline_off_cmd': 'python3 /verif/tools/baseline.py /repo',
        'source_commits': [],
        'add_only': True,
    },
    'engines': [{'name': e, 'path': 'zmon/engines/%s.py' % e, 'serves_properties': ps,
                 'kind_free_text': mm.ENGINE_KIND.get(e, 'runtime monitor')} for e, ps in sorted(engines.items())],
    'checks': checks,
    'notes': mm.NOTES,
    'not_applicable': [{'property_id': k, 'reason': v} for k, v in sorted(mm.NOT_APPLICABLE.items())] +
                      [{'property_id': pid, 'reason': 'check not built yet in this revision of /verif (planned, see DESIGN.md section 3)'}
                       for pid in props if pid not in plans.PLANS and pid not in mm.NOT_APPLICABLE],
}
with open(os.path.join(VERIF, 'MANIFEST.json'), 'w') as f:
    json.dump(man, f, indent=1)
print('checks:', [c['property_id'] for c in checks])
print('not_applicable:', [n['property_id'] for n in man['not_applicable']])
