#!/usr/bin/env python3
"""Validate a seeded change and run checks against it.

usage: tools/seedtest.py <patch.diff> <demo.py> <PROP> [--name NAME] [--all] [--thorough] [--keep DIR]

1. scratch worktree of /repo HEAD under /tmp, patch applied there (never in /repo)
2. confirms: pinned test suite still passes with the change; demo FAILS with it and PASSES without it
3. runs the quick check of PROP (and with --all every quick check, with --thorough also PROP's thorough
   check if quick missed it) with VERIF_REPO pointing at the scratch tree
4. with --keep DIR writes DIR/{patch.diff,demo.py,meta.json}
The worktree and its build output are removed at the end."""
import argparse
import json
import os
import shutil
import subprocess
import sys
import tempfile
import time

VERIF = os.path.dirname(os.path.dirname(os.path.abspath(__file__)))
PY = '/venv/bin/python'


def sh(cmd, **kw):
    return subprocess.run(cmd, capture_output=True, text=True, **kw)


def run_check(prop, tier, wt):
    env = dict(os.environ, VERIF_REPO=wt)
    t0 = time.time()
    p = sh([PY, '-m', 'zmon.check', prop, '--tier', tier, '--no-evidence'], cwd=VERIF, env=env)
    lines = p.stdout.splitlines()
    viol = [l for l in lines if l.startswith('VIOLATION')]
    kinds = sorted({l.split('kind=')[1].split()[0] for l in lines if l.strip().startswith('kind=')})
    return {'rc': p.returncode, 'violations': len(viol), 'kinds': kinds, 'wall_s': round(time.time() - t0, 1),
            'inconclusive': [l[:300] for l in lines if l.startswith('INCONCLUSIVE')]}


def main():
    ap = argparse.ArgumentParser()
    ap.add_argument('patch')
    ap.add_argument('demo')
    ap.add_argument('prop')
    ap.add_argument('--name')
    ap.add_argument('--all', action='store_true')
    ap.add_argument('--thorough', action='store_true')
    ap.add_argument('--keep')
    ap.add_argument('--needs', default='')
    a = ap.parse_args()
    wt = tempfile.mkdtemp(prefix='zseed-')
    os.rmdir(wt)
    meta = {'property': a.prop, 'name': a.name or os.path.basename(a.patch), 'needs_to_manifest': a.needs}
    try:
        r = sh(['git', '-C', '/repo', 'worktree', 'add', '-q', '--detach', wt, 'HEAD'])
        assert r.returncode == 0, r.stderr
        meta['repo_head'] = sh(['git', '-C', '/repo', 'rev-parse', '--short', 'HEAD']).stdout.strip()
        demo_rel = os.path.join(wt, 'zseed_demo.py')
        shutil.copy(a.demo, demo_rel)
        # demo on the unchanged tree
        sh([PY, 'setup.py', '-q', 'build_ext', '--inplace'], cwd=wt)
        d0 = sh([PY, os.path.join(VERIF, 'tools', 'pyrun.py'), wt, demo_rel], cwd=wt)
        meta['demo_unchanged'] = {'rc': d0.returncode, 'tail': d0.stdout[-200:]}
        r = sh(['git', '-C', wt, 'apply', '--3way', os.path.abspath(a.patch)])
        if r.returncode != 0:
            r = sh(['git', '-C', wt, 'apply', os.path.abspath(a.patch)])
        meta['applies'] = r.returncode == 0
        if r.returncode != 0:
            print('PATCH DOES NOT APPLY:', r.stderr[-500:])
            print(json.dumps(meta, indent=1))
            return 2
        b = sh(['python3', os.path.join(VERIF, 'tools', 'baseline.py'), wt])
        meta['baseline'] = {'rc': b.returncode, 'summary': b.stdout.strip().splitlines()[0] if b.stdout.strip() else b.stderr[-200:]}
        d1 = sh([PY, os.path.join(VERIF, 'tools', 'pyrun.py'), wt, demo_rel], cwd=wt)
        meta['demo_changed'] = {'rc': d1.returncode, 'tail': d1.stdout[-300:]}
        meta['confirmed'] = bool(d0.returncode == 0 and d1.returncode != 0 and b.returncode == 0)
        checks = {}
        checks[a.prop + ':quick'] = run_check(a.prop, 'quick', wt)
        if a.thorough and checks[a.prop + ':quick']['violations'] == 0:
            checks[a.prop + ':thorough'] = run_check(a.prop, 'thorough', wt)
        if a.all:
            man = json.load(open(os.path.join(VERIF, 'MANIFEST.json')))
            for c in man['checks']:
                pid = c['property_id']
                if pid != a.prop:
                    checks[pid + ':quick'] = run_check(pid, 'quick', wt)
        meta['checks'] = checks
        meta['caught_by'] = sorted(k for k, v in checks.items() if v['violations'] > 0)
        meta['what_was_run'] = 'tools/seedtest.py: baseline.py on the patched scratch worktree, the demo with and without the patch, zmon.check with VERIF_REPO=<scratch worktree>'
        print(json.dumps(meta, indent=1))
        if a.keep:
            os.makedirs(a.keep, exist_ok=True)
            shutil.copy(a.patch, os.path.join(a.keep, 'patch.diff'))
            shutil.copy(a.demo, os.path.join(a.keep, 'demo.py'))
            with open(os.path.join(a.keep, 'meta.json'), 'w') as f:
                json.dump(meta, f, indent=1)
        return 0
    finally:
        sh(['git', '-C', '/repo', 'worktree', 'remove', '--force', wt])
        shutil.rmtree(wt, True)
        sh(['git', '-C', '/repo', 'worktree', 'prune'])


if __name__ == '__main__':
    sys.exit(main())
