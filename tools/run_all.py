#!/usr/bin/env python3
"""Run every registered check of a tier (default quick) and print one summary line each.
usage: tools/run_all.py [quick|thorough] [ids...]"""
import json
import os
import subprocess
import sys
import time

VERIF = os.path.dirname(os.path.dirname(os.path.abspath(__file__)))
tier = sys.argv[1] if len(sys.argv) > 1 else 'quick'
only = sys.argv[2:]
man = json.load(open(os.path.join(VERIF, 'MANIFEST.json')))
bad = 0
for c in man['checks']:
    pid = c['property_id']
    if only and pid not in only:
        continue
    cmd = c['thorough_cmd'] if tier == 'thorough' else c['quick_cmd']
    t0 = time.time()
    p = subprocess.run(cmd, shell=True, cwd=VERIF, capture_output=True, text=True)
    lines = [l for l in p.stdout.splitlines() if l.startswith(('VIOLATION', 'KNOWN-FINDING', 'INCONCLUSIVE'))]
    print('%s rc=%d %.0fs %s' % (pid, p.returncode, time.time() - t0, p.stdout.splitlines()[0] if p.stdout else ''), flush=True)
    for l in lines[:6]:
        print('    ' + l[:300], flush=True)
    if p.returncode != 0:
        bad += 1
        for l in p.stdout.splitlines()[1:12]:
            print('      ' + l[:400])
        print(p.stderr[-800:])
sys.exit(1 if bad else 0)
