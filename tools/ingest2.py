#!/usr/bin/env python3
"""Validate seeded changes written by sub-agents to /tmp/mut<R>/<ID>/out/{A,B,C}.diff (+ demo_X.py, notes.md) and
keep the confirmed ones as seeded/<ID>-{C,D,E}/ (round 2) or seeded/<ID>-{F,G,H}/ (round 3).
usage: tools/ingest2.py [--round3|--round4] [--all] ID..."""
import json
import os
import subprocess
import sys

VERIF = os.path.dirname(os.path.dirname(os.path.abspath(__file__)))
flags = [a for a in sys.argv[1:] if a.startswith('--')]
ROUND = 7 if '--round7' in flags else 6 if '--round6' in flags else 5 if '--round5' in flags else 4 if '--round4' in flags else 3 if '--round3' in flags else 2
MAP = {2: {'A': 'C', 'B': 'D', 'C': 'E'}, 3: {'A': 'F', 'B': 'G', 'C': 'H'}, 4: {'A': 'I', 'B': 'J', 'C': 'K'},
       5: {'A': 'L', 'B': 'M', 'C': 'N'}, 6: {'A': 'O', 'B': 'P', 'C': 'Q'}, 7: {'A': 'R', 'B': 'S', 'C': 'T'}}[ROUND]
for pid in [a for a in sys.argv[1:] if not a.startswith('--')]:
    out = '/tmp/mut%d/%s/out' % (ROUND, pid)
    try:
        notes = ' '.join(open(os.path.join(out, 'notes.md')).read().split())
    except OSError:
        notes = ''
    for x in 'ABC':
        diff = os.path.join(out, x + '.diff')
        demo = os.path.join(out, 'demo_%s.py' % x)
        if not (os.path.exists(diff) and os.path.exists(demo)):
            continue
        name = '%s-%s' % (pid, MAP[x])
        keep = os.path.join(VERIF, 'seeded', name)
        cmd = ['python3', os.path.join(VERIF, 'tools', 'seedtest.py'), diff, demo, pid, '--name', name] + ([] if '--quickonly' in flags else ['--thorough']) + [
               '--keep', keep, '--needs', '[round %d, author\'s change %s] %s' % (ROUND, x, notes[:8000])]
        if '--all' in flags:
            cmd.append('--all')
        p = subprocess.run(cmd, capture_output=True, text=True, cwd=VERIF)
        try:
            m = json.load(open(os.path.join(keep, 'meta.json')))
            print(name, 'confirmed' if m.get('confirmed') else 'NOT-CONFIRMED %s' % {k: m.get(k) for k in ('demo_unchanged', 'baseline', 'demo_changed')},
                  'caught_by=', m.get('caught_by'), flush=True)
        except Exception:
            print(name, 'ERROR', (p.stdout + p.stderr)[-800:], flush=True)
